From Coq Require Import List Arith Bool Lia.
Import ListNotations.
From DV Require Import Headers.Model.

Fixpoint decls (evs : list ev) : list nat :=
  match evs with [] => [] | Declare t :: r => t :: decls r | Use _ :: r => decls r end.

(* the check composes over concatenation: the second part sees what the first declared *)
Lemma ok_from_app d a b : ok_from d (a ++ b) = ok_from d a && ok_from (rev (decls a) ++ d) b.
Proof.
  revert d. induction a as [|[t|t] a IH]; intros d; cbn [app ok_from decls rev]; [reflexivity| |].
  - rewrite IH. rewrite <- app_assoc. reflexivity.
  - rewrite IH. now rewrite andb_assoc.
Qed.

Lemma mem_in n l : mem n l = true <-> In n l.
Proof.
  unfold mem. rewrite existsb_exists. split; [intros (x & Hx & E); apply Nat.eqb_eq in E; now subst|].
  intros H. exists n. split; [exact H|apply Nat.eqb_refl].
Qed.

(* once everything a prototype block mentions has been declared, the block is fine *)
Theorem uses_after_decls_ok d refs : (forall x, In x refs -> In x d) -> ok_from d (map Use refs) = true.
Proof.
  induction refs as [|x r IH]; intros H; cbn; [reflexivity|].
  apply andb_true_iff. split; [apply mem_in; apply H; now left|apply IH; intros y Hy; apply H; now right].
Qed.

Example order_example :
  (* St1 { inner: St0, op: Box<Op> } ; Op has methods mentioning St1 and St0 *)
  let e := [mkT [] []; mkT [] [2; 0]; mkT [0; 1] []] in
  declared_before_use (expand_h e 5 1) = true /\ declared_before_use (expand_h e 5 2) = true /\
  expand_h e 5 1 = [Declare 0; Declare 1; Use 0; Use 1; Declare 2; Use 2; Use 0; Use 1].
Proof. vm_compute. repeat split. Qed.

(* ------------------------------------------------------------------ the general statement *)
From Coq Require Import Relations.

Definition child (e : env) (a b : nat) : Prop := In b (fields (get e a)).
Definition reach (e : env) : nat -> nat -> Prop := clos_refl_trans_1n nat (child e).

Lemma depth_mono e d : forall t, depth_le e d t = true -> depth_le e (S d) t = true.
Proof.
  induction d as [|d IH]; intros t H.
  - cbn in H. cbn [depth_le]. destruct (fields (get e t)); [reflexivity|discriminate].
  - cbn [depth_le] in H |- *. rewrite forallb_forall in H |- *. intros x Hx. apply IH. apply H. exact Hx.
Qed.

Lemma depth_child e d a x : depth_le e (S d) a = true -> child e a x -> depth_le e d x = true.
Proof. cbn [depth_le]. rewrite forallb_forall. intros H Hx. apply H. exact Hx. Qed.

Lemma depth_zero_leaf e a x : depth_le e 0 a = true -> child e a x -> False.
Proof. unfold child. cbn [depth_le]. destruct (fields (get e a)); [intros _ []|discriminate]. Qed.

Lemma depth_reach e d a b : depth_le e d a = true -> reach e a b -> depth_le e d b = true.
Proof.
  intros H R. induction R as [a|a x b Hax _ IH]; [exact H|]. apply IH.
  destruct d as [|d]; [exfalso; eapply depth_zero_leaf; eassumption|]. apply depth_mono. eapply depth_child; eassumption.
Qed.

(* by-value containment of bounded depth has no cycles *)
Lemma acyclic e d : forall a x, depth_le e d a = true -> child e a x -> reach e x a -> False.
Proof.
  induction d as [|d IH]; intros a x H Hax R; [eapply depth_zero_leaf; eassumption|].
  pose proof (depth_child e d a x H Hax) as Hx. pose proof (depth_reach e d x a Hx R) as Ha.
  exact (IH a x Ha Hax R).
Qed.

Lemma reach_step e a x b : child e a x -> reach e x b -> reach e a b.
Proof. intros H R. exact (Relation_Operators.rt1n_trans _ _ a x b H R). Qed.

(* guards already defined are either declared or belong to the headers being expanded right now (A) *)
Definition Inv (seen declared A : list nat) : Prop := forall s, In s seen -> In s declared \/ In s A.
Definition after (declared : list nat) (evs : list ev) : list nat := rev (decls evs) ++ declared.

Lemma decls_app a b : decls (a ++ b) = decls a ++ decls b.
Proof. induction a as [|[t|t] a IH]; cbn [app decls]; [reflexivity|rewrite IH; reflexivity|exact IH]. Qed.

Lemma after_app d a b : after d (a ++ b) = after (after d a) b.
Proof. unfold after. rewrite decls_app, rev_app_distr, app_assoc. reflexivity. Qed.

Lemma after_incl d evs x : In x d -> In x (after d evs).
Proof. intros H. unfold after. apply in_or_app. right. exact H. Qed.

(* one include: the specification of a well-behaved expansion step *)
Definition step_ok (e : env) (f : nat) (A : list nat) (x : nat) : Prop :=
  forall seen declared, Inv seen declared A -> (forall a, In a A -> ~ reach e x a) ->
    let '(seen', evs) := expand_d e f x seen in
    ok_from declared evs = true /\ In x (after declared evs) /\ Inv seen' (after declared evs) A.

(* a sequence of includes, each well-behaved *)
Lemma fold_ok e f A : forall xs seen declared acc,
  (forall x, In x xs -> step_ok e f A x) -> (forall x a, In x xs -> In a A -> ~ reach e x a) ->
  Inv seen (after declared acc) A -> ok_from declared acc = true ->
  let '(seen', evs) := fold_left (fun '(s, acc) x => let '(s', ev') := expand_d e f x s in (s', acc ++ ev')) xs (seen, acc) in
  ok_from declared evs = true /\ (forall x, In x xs -> In x (after declared evs)) /\ Inv seen' (after declared evs) A /\
  (forall y, In y (after declared acc) -> In y (after declared evs)).
Proof.
  induction xs as [|x xs IH]; intros seen declared acc Hstep HA Hinv Hok; cbn [fold_left].
  - repeat split; auto. intros x [].
  - pose proof (Hstep x (or_introl eq_refl) seen (after declared acc) Hinv (fun a Ha => HA x a (or_introl eq_refl) Ha)) as Hs.
    destruct (expand_d e f x seen) as [s' ev'] eqn:Hx. destruct Hs as (Hok' & Hin & Hinv').
    specialize (IH s' declared (acc ++ ev')).
    assert (Hok2 : ok_from declared (acc ++ ev') = true) by (rewrite ok_from_app, Hok; exact Hok').
    rewrite after_app in IH. specialize (IH (fun y Hy => Hstep y (or_intror Hy)) (fun y a Hy Ha => HA y a (or_intror Hy) Ha) Hinv' Hok2).
    destruct (fold_left _ xs (s', acc ++ ev')) as [sf evf]. destruct IH as (I1 & I2 & I3 & I4).
    split; [exact I1|]. split; [|split; [exact I3|]].
    + intros y [<-|Hy]; [apply I4; exact Hin|apply I2; exact Hy].
    + intros y Hy. apply I4. apply after_incl. exact Hy.
Qed.

Lemma expand_d_ok e : forall f t A, depth_le e f t = true -> step_ok e (S f) A t.
Proof.
  induction f as [|f IH]; intros t A Hd seen declared Hinv HA.
  - (* a leaf: no fields *)
    cbn [expand_d]. destruct (mem t seen) eqn:Hm.
    + apply mem_in in Hm. cbn [ok_from]. split; [reflexivity|]. split; [|exact Hinv].
      unfold after. cbn. destruct (Hinv t Hm) as [H|H]; [exact H|]. exfalso. apply (HA t H). apply Relation_Operators.rt1n_refl.
    + cbn [depth_le] in Hd. destruct (fields (get e t)) eqn:Hf; [|discriminate]. cbn [fold_left map app ok_from].
      split; [reflexivity|]. unfold after. cbn [decls rev app]. split; [left; reflexivity|].
      intros s [<-|Hs]; [left; left; reflexivity|]. destruct (Hinv s Hs) as [H|H]; [left; right; exact H|right; exact H].
  - cbn [expand_d]. destruct (mem t seen) eqn:Hm.
    + apply mem_in in Hm. cbn [ok_from]. split; [reflexivity|]. split; [|exact Hinv].
      unfold after. cbn. destruct (Hinv t Hm) as [H|H]; [exact H|]. exfalso. apply (HA t H). apply Relation_Operators.rt1n_refl.
    + set (fs := fields (get e t)).
      assert (Hchild : forall x, In x fs -> depth_le e f x = true) by (intros x Hx; eapply depth_child; eassumption).
      pose proof (fold_ok e (S f) (t :: A) fs (t :: seen) declared []) as Hfold.
      assert (H1 : forall x, In x fs -> step_ok e (S f) (t :: A) x) by (intros x Hx; apply IH; apply Hchild; exact Hx).
      assert (H2 : forall x a, In x fs -> In a (t :: A) -> ~ reach e x a).
      { intros x a Hx [<-|Ha] R; [eapply (acyclic e (S f) t x); eassumption|]. apply (HA a Ha). eapply reach_step; eassumption. }
      assert (H3 : Inv (t :: seen) (after declared []) (t :: A)).
      { unfold after. cbn. intros s [<-|Hs]; [right; left; reflexivity|]. destruct (Hinv s Hs) as [H|H]; [left; exact H|right; right; exact H]. }
      specialize (Hfold H1 H2 H3 eq_refl).
      destruct (fold_left _ fs (t :: seen, [])) as [sf evf]. destruct Hfold as (F1 & F2 & F3 & _).
      rewrite !ok_from_app, F1. cbn [andb]. split; [|split].
      * apply andb_true_iff. split; [apply uses_after_decls_ok; exact F2|].
        cbn [ok_from]. reflexivity.
      * rewrite !after_app. unfold after at 1. cbn [decls rev app]. left. reflexivity.
      * rewrite !after_app. intros s Hs. unfold after at 1. cbn [decls rev app].
        assert (Hd2 : forall y, In y (after declared evf) -> In y (after (after declared evf) (map Use fs))).
        { intros y Hy. apply after_incl. exact Hy. }
        destruct (F3 s Hs) as [H|[<-|H]]; [left; right; apply Hd2; exact H|left; left; reflexivity|right; exact H].
Qed.

(* THEOREM: with include-once guards, whatever the header of a type expands to declares every type before using it,
   for every set of types whose by-value containment is acyclic (depth bounded by the fuel), whatever refers to whatever
   by pointer or in method signatures *)
Theorem headers_declare_before_use e f t :
  (forall x, depth_le e f x = true) -> declared_before_use (expand_h e (S f) t) = true.
Proof.
  intros Hd. unfold declared_before_use, expand_h.
  pose proof (fold_ok e (S f) [] (sig_refs (get e t) ++ [t]) [] [] []) as Hfold.
  assert (H1 : forall x, In x (sig_refs (get e t) ++ [t]) -> step_ok e (S f) [] x) by (intros x _; apply expand_d_ok; apply Hd).
  specialize (Hfold H1 (fun x a _ Ha => match Ha with end)).
  assert (H3 : Inv [] (after [] []) []) by (intros s []).
  specialize (Hfold H3 eq_refl).
  destruct (fold_left _ (sig_refs (get e t) ++ [t]) ([], [])) as [sf evf]. destruct Hfold as (F1 & F2 & _).
  rewrite !ok_from_app, F1. cbn [andb]. apply andb_true_iff. split.
  - apply uses_after_decls_ok. intros x Hx. apply F2. apply in_or_app. left. exact Hx.
  - cbn [ok_from]. rewrite andb_true_r. apply mem_in. apply after_incl. apply F2. apply in_or_app. right. left. reflexivity.
Qed.

Example headers_theorem_applies :
  let e := [mkT [] []; mkT [] [2; 0]; mkT [0; 1] [1]; mkT [2; 0] [3; 1]] in
  (forall x, x < 4 -> depth_le e 2 x = true) /\ declared_before_use (expand_h e 3 3) = true.
Proof. split; [intros x Hx; do 4 (destruct x as [|x]; [reflexivity|]); lia|vm_compute; reflexivity]. Qed.
