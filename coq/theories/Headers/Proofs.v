From Coq Require Import List Arith Bool Lia.
Import ListNotations.
From DV Require Import Headers.Model.

Fixpoint decls (evs : list ev) : list nat :=
  match evs with [] => [] | Declare t :: r => t :: decls r | Use _ :: r => decls r end.

(* the check composes over concatenation: the second part sees what the first declared *)
Lemma ok_from_app d a b : ok_from d (a ++ b) = ok_from d a && ok_from (rev (decls a) ++ d) b.
Proof.
  revert d. induction a as [|[t|t] a IH]; intros d; cbn [app ok_from decls rev]; [reflexivity| |].
  - rewrite IH. rewrite <- app_assoc. reflexivity.
  - rewrite IH. now rewrite andb_assoc.
Qed.

Lemma mem_in n l : mem n l = true <-> In n l.
Proof.
  unfold mem. rewrite existsb_exists. split; [intros (x & Hx & E); apply Nat.eqb_eq in E; now subst|].
  intros H. exists n. split; [exact H|apply Nat.eqb_refl].
Qed.

(* once everything a prototype block mentions has been declared, the block is fine *)
Theorem uses_after_decls_ok d refs : (forall x, In x refs -> In x d) -> ok_from d (map Use refs) = true.
Proof.
  induction refs as [|x r IH]; intros H; cbn; [reflexivity|].
  apply andb_true_iff. split; [apply mem_in; apply H; now left|apply IH; intros y Hy; apply H; now right].
Qed.

Example order_example :
  (* St1 { inner: St0, op: Box<Op> } ; Op has methods mentioning St1 and St0 *)
  let e := [mkT [] []; mkT [] [2; 0]; mkT [0; 1] []] in
  declared_before_use (expand_h e 5 1) = true /\ declared_before_use (expand_h e 5 2) = true /\
  expand_h e 5 1 = [Declare 0; Declare 1; Use 0; Use 1; Declare 2; Use 2; Use 0; Use 1].
Proof. vm_compute. repeat split. Qed.
