(* Generated C headers (tool/src/c/header.rs, ty.rs): which header includes which, and the
   "declared before use" argument under include-once expansion.  Definitions only.
   Types are numbered; [T.d.h] = includes of the decl headers of T's by-value fields and of the opaques /
   enums its fields point to, then T's own declaration; [T.h] = decl headers of everything T's method
   signatures mention, then T.d.h, then the prototypes. *)
From Coq Require Import List Arith Bool.
Import ListNotations.

Record tdef := mkT { fields : list nat;     (* types a struct's declaration needs complete/declared: by-value fields, pointed-to opaques *)
                     sig_refs : list nat }. (* types mentioned by method signatures *)
Definition env := list tdef.
Definition get (e : env) (n : nat) : tdef := nth n e (mkT [] []).

Inductive ev := Declare (t : nat) | Use (t : nat).

Definition mem (n : nat) (l : list nat) : bool := existsb (Nat.eqb n) l.

(* include-once expansion of T.d.h; [seen] = guards already defined; fuel bounds the include depth *)
Fixpoint expand_d (e : env) (fuel : nat) (t : nat) (seen : list nat) : list nat * list ev :=
  if mem t seen then (seen, []) else
  match fuel with
  | O => (seen, [])      (* out of fuel: excluded by [depth_ok] in the theorems *)
  | S f =>
      let '(seen', evs) :=
        fold_left (fun '(s, acc) x => let '(s', ev') := expand_d e f x s in (s', acc ++ ev')) (fields (get e t)) (t :: seen, []) in
      (seen', evs ++ map Use (fields (get e t)) ++ [Declare t])
  end.
(* T.h *)
Definition expand_h (e : env) (fuel : nat) (t : nat) : list ev :=
  let refs := sig_refs (get e t) in
  let '(seen, evs) :=
    fold_left (fun '(s, acc) x => let '(s', ev') := expand_d e fuel x s in (s', acc ++ ev')) (refs ++ [t]) ([], []) in
  evs ++ map Use refs ++ [Use t].

(* every Use is preceded by the Declare of the same type *)
Fixpoint ok_from (declared : list nat) (evs : list ev) : bool :=
  match evs with
  | [] => true
  | Declare t :: r => ok_from (t :: declared) r
  | Use t :: r => mem t declared && ok_from declared r
  end.
Definition declared_before_use (evs : list ev) : bool := ok_from [] evs.

(* by-value containment depth is what rustc bounds: a struct cannot contain itself *)
Fixpoint depth_le (e : env) (d : nat) (t : nat) : bool :=
  match d with
  | O => match fields (get e t) with [] => true | _ => false end
  | S d' => forallb (depth_le e d') (fields (get e t))
  end.

(* ---- correspondence: the include lines of the real headers ---- *)
Definition includes_d (e : env) (t : nat) : list nat := fields (get e t).
Definition includes_h (e : env) (t : nat) : list nat := sig_refs (get e t) ++ [t].
Definition same_set (a b : list nat) : bool := forallb (fun x => mem x b) a && forallb (fun x => mem x a) b.
Definition agree_includes (e : env) (t : nat) (obs_d obs_h : list nat) : bool :=
  same_set (includes_d e t) obs_d && same_set (includes_h e t) obs_h.
Definition agree_order (e : env) (fuel : nat) (t : nat) : bool := declared_before_use (expand_h e fuel t).
