(* C09 — generated C++ headers (tool/src/cpp/header.rs, cpp/mod.rs gen(), cpp/ty.rs gen_type_name,
   templates/cpp/base.h.jinja): which header includes which, and why every class is complete before an inline method
   body needs it, under include-once expansion with cyclic references.

   T.d.hpp : #include "X.d.hpp" for the by-value fields X of T (generating_struct_fields), forward declarations of every
             other type T mentions, then the definition of T (fields need complete types, method *declarations* only
             declared ones).  Its completeness bookkeeping is that of the C decl header: Model.expand_d.
   T.hpp   : #include "T.d.hpp" first (decl_include), then #include "X.hpp" for every other type X mentioned by fields or
             method signatures, then the inline bodies, which need T and every such X complete.
   [Declare t] = the definition of class t has been seen; [Use t] = t must be complete here. *)
From Coq Require Import List Arith Bool.
Import ListNotations.
From DV Require Import Headers.Model.

(* every other type T mentions (Header::rm_forward / includes.remove take T itself out) *)
Definition crefs (e : env) (t : nat) : list nat :=
  filter (fun x => negb (x =? t)) (fields (get e t) ++ sig_refs (get e t)).

Definition hstate := (list nat * list nat)%type.     (* guards defined: X_D_HPP, X_HPP *)

(* include-once expansion of T.hpp; the flag is false when the fuel did not suffice (excluded in the theorem, evaluated
   in the correspondence goals; number of types + 1 always suffices because every level defines a new guard) *)
Fixpoint expand_hpp (e : env) (fd fuel : nat) (t : nat) (st : hstate) : hstate * list ev * bool :=
  if mem t (snd st) then (st, [], true) else
  match fuel with
  | O => (st, [], false)
  | S f =>
      let '(sd1, ev1) := expand_d e fd t (fst st) in
      let '(st2, ev2, ok2) :=
        fold_left (fun '(s, acc, ok) x => let '(s', ev', ok') := expand_hpp e fd f x s in (s', acc ++ ev', ok && ok'))
                  (crefs e t) ((sd1, t :: snd st), [], true) in
      (st2, ev1 ++ ev2 ++ map Use (t :: crefs e t), ok2)
  end.

Definition hpp_events (e : env) (fd fuel : nat) (t : nat) : list ev * bool :=
  let '(_, evs, ok) := expand_hpp e fd fuel t ([], []) in (evs, ok).

(* ---- what the decl header forward-declares: every name a method declaration mentions is declared by then ---- *)
Definition forwards (e : env) (t : nat) : list nat := crefs e t.
Definition decl_names_ok (e : env) (t : nat) : bool :=
  forallb (fun x => (x =? t) || mem x (forwards e t)) (fields (get e t) ++ sig_refs (get e t)).

(* ---- correspondence: the include and forward-declaration lines of the real headers ---- *)
Definition agree_cpp_files (e : env) (t : nat) (inc_d fwd_d inc_h : list nat) : bool :=
  same_set (fields (get e t)) inc_d && same_set (forwards e t) fwd_d && same_set (crefs e t) inc_h.
Definition agree_cpp_order (e : env) (fd fuel : nat) (t : nat) : bool :=
  let '(evs, ok) := hpp_events e fd fuel t in ok && declared_before_use evs.
