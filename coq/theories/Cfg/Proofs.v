From Coq Require Import List String Bool Arith Lia.
Import ListNotations.
From DV Require Import gen.Tables Cfg.Model.
Local Open Scope string_scope.
Local Open Scope list_scope.

(* induction principle that sees through the lists of any()/all() *)
Section CfgInd.
  Variable P : cfg -> Prop.
  Hypothesis HNot : forall c, P c -> P (CNot c).
  Hypothesis HAny : forall l, Forall P l -> P (CAny l).
  Hypothesis HAll : forall l, Forall P l -> P (CAll l).
  Hypothesis HStar : P CStar.
  Hypothesis HAuto : P CAuto.
  Hypothesis HB : forall n, P (CBackend n).
  Hypothesis HNV : forall n v, P (CNameValue n v).
  Fixpoint cfg_ind' (c : cfg) : P c :=
    match c with
    | CNot c' => HNot c' (cfg_ind' c')
    | CAny l => HAny l ((fix go (l : list cfg) : Forall P l :=
                           match l with [] => Forall_nil P | x :: r => Forall_cons x (cfg_ind' x) (go r) end) l)
    | CAll l => HAll l ((fix go (l : list cfg) : Forall P l :=
                           match l with [] => Forall_nil P | x :: r => Forall_cons x (cfg_ind' x) (go r) end) l)
    | CStar => HStar | CAuto => HAuto | CBackend n => HB n | CNameValue n v => HNV n v
    end.
End CfgInd.

(* whenever the evaluator answers, it answers with the propositional meaning (any depth, any width) *)
Theorem sat_sound b c : forall a v f, sat b c a = ROk v f -> v = denote b c.
Proof.
  induction c as [c IH|l IH|l IH| | |n|n v'] using cfg_ind'; intros a v f H; cbn [sat denote] in *.
  - destruct (sat b c false) as [x f'|] eqn:E; [|discriminate]. inversion H; subst. f_equal. eapply IH; eauto.
  - revert H. generalize false at 1 as acc. induction IH as [|x r Hx _ IHr]; cbn [existsb any_loop]; intros acc H; [now inversion H|].
    destruct (sat b x a) as [[|] f'|] eqn:E; try discriminate.
    + inversion H; subst. rewrite <- (Hx _ _ _ E). reflexivity.
    + rewrite <- (Hx _ _ _ E). cbn [orb]. eapply IHr. exact H.
  - revert H. induction IH as [|x r Hx _ IHr]; cbn [forallb all_loop]; intros H; [now inversion H|].
    destruct (sat b x false) as [[|] f'|] eqn:E; try discriminate.
    + rewrite <- (Hx _ _ _ E). cbn [andb]. apply IHr. exact H.
    + inversion H; subst. rewrite <- (Hx _ _ _ E). reflexivity.
  - now inversion H.
  - destruct a; [now inversion H|discriminate].
  - now inversion H.
  - rewrite H. reflexivity.
Qed.

(* an attribute whose condition is false for this backend is as if it were not written at all:
   any payload, any position in the attribute list, any parent *)
Theorem false_cfg_is_noop b c p l1 l2 parent f :
  sat b c true = ROk false f ->
  from_ast b (l1 ++ (c, p) :: l2) parent = from_ast b (l1 ++ l2) parent.
Proof.
  intros H. unfold from_ast. rewrite !fold_left_app. cbn [fold_left].
  unfold attr_step at 2. now rewrite H.
Qed.

Corollary false_denotation_is_noop b c p l1 l2 parent v f :
  sat b c true = ROk v f -> denote b c = false ->
  from_ast b (l1 ++ (c, p) :: l2) parent = from_ast b (l1 ++ l2) parent.
Proof.
  intros H Hd. apply (false_cfg_is_noop b c p l1 l2 parent f). rewrite (sat_sound b c true v f H) in H. now rewrite Hd in H.
Qed.

Lemma step_errs_mono b h a : errs h <= errs (attr_step b h a).
Proof.
  destruct a as [c p]. unfold attr_step. destruct (sat b c true) as [[|] f|]; cbn; try lia.
  destruct p; cbn; try lia. destruct (disable h); cbn; lia.
Qed.

Lemma fold_errs_mono b l : forall h, errs h <= errs (fold_left (attr_step b) l h).
Proof.
  induction l as [|a r IH]; intros h; cbn [fold_left]; [lia|].
  etransitivity; [apply (step_errs_mono b h a)|apply IH].
Qed.

Definition sat_disable (b : string) (a : attr) : bool :=
  match a with (c, PDisable) => match sat b c true with ROk true _ => true | _ => false end | _ => false end.

(* disabled  <->  inherited disable, or some disable attribute on the item whose condition holds *)
Theorem disable_iff b attrs : forall parent,
  disable (from_ast b attrs parent) = disable parent || existsb (sat_disable b) attrs.
Proof.
  unfold from_ast. induction attrs as [|[c p] r IH]; intros parent; cbn [fold_left existsb].
  - now rewrite orb_false_r.
  - rewrite IH. unfold attr_step, sat_disable at 2.
    destruct (sat b c true) as [[|] f|]; cbn [disable]; try (destruct p; cbn [orb]; reflexivity).
    destruct p; cbn [disable orb]; try reflexivity.
    destruct (disable parent); cbn; rewrite ?orb_true_r; reflexivity.
Qed.

(* accepted modules never carry two applicable disables on one inheritance path *)
Theorem accepted_single_disable b attrs parent :
  errs (from_ast b attrs parent) = errs parent ->
  disable parent = true -> existsb (sat_disable b) attrs = false.
Proof.
  unfold from_ast. revert parent. induction attrs as [|[c p] r IH]; intros parent He Hd; cbn [fold_left existsb] in *; [reflexivity|].
  pose proof (step_errs_mono b parent (c, p)) as M1.
  pose proof (fold_errs_mono b r (attr_step b parent (c, p))) as M2.
  assert (E1 : errs (attr_step b parent (c, p)) = errs parent) by lia.
  unfold sat_disable at 1. unfold attr_step in E1 |- *.
  destruct (sat b c true) as [[|] f|] eqn:Es; cbn [errs] in E1; try lia.
  - destruct p; cbn [orb].
    + rewrite Hd in E1. cbn in E1. lia.
    + assert (Hf : f = false) by (destruct f; [cbn in E1; lia|reflexivity]). subst f.
      assert (Est : attr_step b parent (c, PRename pattern) = mkH (disable parent) (Some pattern) (errs parent))
        by (cbn [attr_step]; rewrite Es; cbn; f_equal; lia).
      rewrite Est in He.
      apply (IH (mkH (disable parent) (Some pattern) (errs parent))); [exact He|exact Hd].
    + assert (Est : attr_step b parent (c, POther) = parent) by (cbn [attr_step]; now rewrite Es).
      rewrite Est in He. apply (IH parent); assumption.
  - assert (Est : attr_step b parent (c, p) = parent) by (cbn [attr_step]; now rewrite Es).
    rewrite Est in He. destruct p; cbn [orb]; apply (IH parent); assumption.
Qed.

Definition sat_rename (b : string) (a : attr) : option string :=
  match a with (c, PRename s) => match sat b c true with ROk true _ => Some s | _ => None end | _ => None end.
Fixpoint last_some {A} (l : list (option A)) (d : option A) : option A :=
  match l with [] => d | Some x :: r => last_some r (Some x) | None :: r => last_some r d end.

(* the innermost (= last written on the inheritance path) applicable rename wins *)
Theorem rename_effective b attrs : forall parent,
  rename (from_ast b attrs parent) = last_some (map (sat_rename b) attrs) (rename parent).
Proof.
  unfold from_ast. induction attrs as [|[c p] r IH]; intros parent; cbn [fold_left map last_some]; [reflexivity|].
  rewrite IH. unfold attr_step, sat_rename at 2.
  destruct (sat b c true) as [[|] f|]; cbn [rename]; try (destruct p; reflexivity).
  destruct p; cbn [rename]; try reflexivity. destruct (disable parent); reflexivity.
Qed.

(* a method is present iff nothing on its path disables it *)
Theorem method_present_spec b m t i me v :
  method_present b m t i me = Some v ->
  v = negb (existsb (sat_disable b) m || existsb (sat_disable b) t || existsb (sat_disable b) (i ++ me)).
Proof.
  unfold method_present, type_attrs, method_attrs.
  destruct (Nat.eqb (errs _) 0) eqn:E1; cbn [negb]; [|discriminate].
  rewrite !disable_iff. cbn [for_inheritance disable]. rewrite !disable_iff. cbn [disable h0 orb].
  destruct (existsb (sat_disable b) m) eqn:Em; cbn [orb].
  - intros H. inversion H; subst. reflexivity.
  - destruct (existsb (sat_disable b) t) eqn:Et; cbn [orb].
    + intros H. inversion H; subst. reflexivity.
    + intros H. match type of H with context [if ?c then _ else _] => destruct c end; [|discriminate].
      inversion H; subst. reflexivity.
Qed.

(* rename patterns: {0} is replaced by the name, a pattern without {0} is a pure rename *)
Example apply_examples :
  apply_pattern "Renamed{0}" "Foo" = "RenamedFoo" /\ apply_pattern "pre_{0}_post" "x" = "pre_x_post" /\
  apply_pattern "Other" "Foo" = "Other" /\ apply_pattern "{0}" "Foo" = "Foo".
Proof. repeat split. Qed.

Example cfg_examples :
  sat "cpp" (CAll [CBackend "cpp"; CNot (CBackend "js")]) true = ROk true false /\
  sat "demo_gen" (CBackend "js") true = ROk true false /\
  sat "cpp" (CNot CAuto) true = RErr /\ sat "js" (CAny [CAuto; CBackend "c"]) true = ROk true true /\
  canary "js" OnType (CAuto, PDisable) = (None, None) /\
  canary "cpp" OnImpl (CBackend "cpp", PDisable) = (Some true, Some false) /\
  canary "c" OnType (CNameValue "supports" "callbacks", PDisable) = (Some false, Some false).
Proof. repeat split. Qed.
