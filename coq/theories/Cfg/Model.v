(* #[diplomat::attr(<cfg>, ...)]: condition evaluation (hir/attrs.rs satisfies_cfg), attribute resolution
   (Attrs::from_ast) and inheritance (for_inheritance, AST-side impl->method copy).  Definitions only.
   The per-backend truth assignment comes from gen/Tables.v, regenerated from /repo on every run. *)
From Coq Require Import List String Bool Arith.
Import ListNotations.
From DV Require Import gen.Tables.
Local Open Scope string_scope.
Local Open Scope list_scope.

Inductive cfg :=
| CNot (c : cfg) | CAny (l : list cfg) | CAll (l : list cfg)
| CStar | CAuto | CBackend (n : string) | CNameValue (n v : string).

(* ROk v auto: the answer, and whether an `auto` atom was reached (auto_found) *)
Inductive res := ROk (v : bool) (auto : bool) | RErr.

Definition is_backend (b n : string) : bool := (b =? n) || existsb (String.eqb n) (other_names b).

Fixpoint assoc {A} (k : string) (l : list (string * A)) : option A :=
  match l with [] => None | (k', v) :: r => if k =? k' then Some v else assoc k r end.
(* is_name_value: only `supports = <known flag>` is meaningful; an unknown flag is an error;
   any other name is false *)
Definition name_value (b n v : string) : res :=
  if n =? "supports" then
    if existsb (String.eqb v) supports_names then
      match assoc b support_table with
      | Some row => match assoc v row with Some x => ROk x false | None => RErr end
      | None => RErr
      end
    else RErr
  else ROk false false.

(* the loops of any(...) / all(...): left to right, short-circuiting, errors propagate when reached *)
Definition any_loop (f : cfg -> res) : list cfg -> bool -> res :=
  fix go (l : list cfg) (found : bool) : res :=
    match l with
    | [] => ROk false found
    | x :: r => match f x with
                | ROk true a => ROk true (found || a)
                | ROk false a => go r (found || a)
                | RErr => RErr
                end
    end.
Definition all_loop (f : cfg -> res) : list cfg -> res :=
  fix go (l : list cfg) : res :=
    match l with
    | [] => ROk true false
    | x :: r => match f x with
                | ROk false _ => ROk false false
                | ROk true _ => go r
                | RErr => RErr
                end
    end.

(* satisfies_cfg; [auto_ok] = Some(&mut auto_found) was passed *)
Fixpoint sat (b : string) (c : cfg) (auto_ok : bool) {struct c} : res :=
  match c with
  | CNot c' => match sat b c' false with ROk v f => ROk (negb v) f | RErr => RErr end
  | CAny l => any_loop (fun x => sat b x auto_ok) l false
  | CAll l => all_loop (fun x => sat b x false) l
  | CStar => ROk true false
  | CAuto => if auto_ok then ROk true true else RErr
  | CBackend n => ROk (is_backend b n) false
  | CNameValue n v => name_value b n v
  end.

(* propositional meaning of a condition (what the book documents) *)
Fixpoint denote (b : string) (c : cfg) : bool :=
  match c with
  | CNot c' => negb (denote b c')
  | CAny l => existsb (denote b) l
  | CAll l => forallb (denote b) l
  | CStar | CAuto => true
  | CBackend n => is_backend b n
  | CNameValue n v => match name_value b n v with ROk x _ => x | RErr => false end
  end.

Inductive payload := PDisable | PRename (pattern : string) | POther.
Definition attr := (cfg * payload)%type.

(* the part of hir::Attrs this property is about, plus the number of lowering errors raised *)
Record hattrs := mkH { disable : bool; rename : option string; errs : nat }.
Definition h0 : hattrs := mkH false None 0.

Definition attr_step (b : string) (h : hattrs) (a : attr) : hattrs :=
  let '(c, p) := a in
  match sat b c true with
  | RErr => mkH (disable h) (rename h) (S (errs h))
  | ROk false _ => h
  | ROk true f =>
      (* warn_auto: `disable` and `rename` do not work with `auto` *)
      let w := if f then 1 else 0 in
      match p with
      | PDisable => if disable h then mkH true (rename h) (S (errs h) + w)    (* "Duplicate `disable` attribute" *)
                    else mkH true (rename h) (errs h + w)
      | PRename s => mkH (disable h) (Some s) (errs h + w)                      (* override-extend *)
      | POther => h
      end
  end.
Definition from_ast (b : string) (attrs : list attr) (parent : hattrs) : hattrs :=
  fold_left (attr_step b) attrs parent.

Inductive inherit := ToType | ToMethodFromModule | ToVariant.
Definition for_inheritance (h : hattrs) (ctx : inherit) : hattrs :=
  match ctx with
  | ToType => mkH (disable h) (rename h) (errs h)
  | ToMethodFromModule => mkH (disable h) None (errs h)
  | ToVariant => mkH false None (errs h)
  end.

(* an item in context: attributes on the bridge module, the type, the impl block, the method *)
Definition type_attrs (b : string) (m t : list attr) : hattrs :=
  from_ast b t (for_inheritance (from_ast b m h0) ToType).
Definition method_attrs (b : string) (m i me : list attr) : hattrs :=
  from_ast b (i ++ me) (for_inheritance (from_ast b m h0) ToMethodFromModule).

(* accepted = no lowering error anywhere on the path *)
Definition type_present (b : string) (m t : list attr) : option bool :=
  let h := type_attrs b m t in if Nat.eqb (errs h) 0 then Some (negb (disable h)) else None.
Definition method_present (b : string) (m t i me : list attr) : option bool :=
  let ht := type_attrs b m t in
  if negb (Nat.eqb (errs ht) 0) then None
  else if disable ht then Some false       (* methods of a disabled type are not even lowered *)
  else let hm := method_attrs b m i me in
       if Nat.eqb (errs hm) 0 then Some (negb (disable hm)) else None.

(* RenameAttr::apply on a pattern with at most one {0} *)
Fixpoint find_sub (pat s : string) (i : nat) : option nat :=
  if String.prefix pat s then Some i else
  match s with EmptyString => None | String _ r => find_sub pat r (S i) end.
Definition apply_pattern (p name : string) : string :=
  match find_sub "{0}" p 0 with
  | Some i => String.substring 0 i p ++ name ++ String.substring (i + 3) (String.length p - (i + 3)) p
  | None => p
  end.
Definition rendered_name (h : hattrs) (name : string) : string :=
  match rename h with Some p => apply_pattern p name | None => name end.

(* ---- correspondence ---- *)
Definition opt_bool_eqb (a b : option bool) : bool :=
  match a, b with None, None => true | Some x, Some y => Bool.eqb x y | _, _ => false end.
Inductive place := OnModule | OnType | OnImpl | OnMethod.
(* a canary: one attribute at one place; observed presence of the type and of its method *)
Definition canary (b : string) (pl : place) (a : attr) : option bool * option bool :=
  match pl with
  | OnModule => (type_present b [a] [], method_present b [a] [] [] [])
  | OnType => (type_present b [] [a], method_present b [] [a] [] [])
  | OnImpl => (type_present b [] [], method_present b [] [] [a] [])
  | OnMethod => (type_present b [] [], method_present b [] [] [] [a])
  end.
Definition agree_canary (b : string) (pl : place) (a : attr) (ty_present m_present : option bool) : bool :=
  let '(t, m) := canary b pl a in opt_bool_eqb t ty_present && opt_bool_eqb m m_present.
(* an item with arbitrary attribute lists on module / type / impl / method *)
Definition agree_item (b : string) (m t i me : list attr) (ty_present m_present : option bool) : bool :=
  opt_bool_eqb (type_present b m t) ty_present && opt_bool_eqb (method_present b m t i me) m_present.
Definition agree_item_method (b : string) (m t i me : list attr) (m_present : option bool) : bool :=
  opt_bool_eqb (method_present b m t i me) m_present.
(* backends where only the method's presence is observable (demo_gen) *)
Definition agree_canary_method (b : string) (pl : place) (a : attr) (m_present : option bool) : bool :=
  opt_bool_eqb (snd (canary b pl a)) m_present.
Definition agree_rename (b : string) (pl : place) (c : cfg) (pat name observed : string) : bool :=
  let a := (c, PRename pat) in
  let h := match pl with
           | OnModule => type_attrs b [a] []
           | OnType => type_attrs b [] [a]
           | OnImpl => method_attrs b [] [a] []
           | OnMethod => method_attrs b [] [] [a]
           end in
  String.eqb (rendered_name h name) observed.
