From Coq Require Import List Arith Lia.
Import ListNotations.

Lemma In_skipn {A} (x : A) n l : In x (skipn n l) -> In x l.
Proof. intros H. rewrite <- (firstn_skipn n l). apply in_or_app. now right. Qed.

Lemma In_firstn {A} (x : A) n l : In x (firstn n l) -> In x l.
Proof. intros H. rewrite <- (firstn_skipn n l). apply in_or_app. now left. Qed.

Lemma skipn_skipn {A} (x y : nat) (l : list A) : skipn x (skipn y l) = skipn (y + x) l.
Proof.
  revert l. induction y as [|y IH]; intros l; [reflexivity|].
  destruct l as [|a l]; cbn [skipn plus]; [now rewrite skipn_nil|apply IH].
Qed.

Lemma NoDup_app_remove_r {A} (l l' : list A) : NoDup (l ++ l') -> NoDup l.
Proof.
  induction l as [|a l IH]; cbn; intros H; [constructor|].
  inversion H as [|? ? Hn Hd]; subst. constructor; [|apply IH; exact Hd].
  intros Hin. apply Hn. apply in_or_app. now left.
Qed.

Lemma NoDup_app_remove_l {A} (l l' : list A) : NoDup (l ++ l') -> NoDup l'.
Proof.
  induction l as [|a l IH]; cbn; intros H; [exact H|].
  inversion H; subst. apply IH. assumption.
Qed.

Lemma combine_app {A B} (l1 l1' : list A) (l2 l2' : list B) :
  length l1 = length l2 -> combine (l1 ++ l1') (l2 ++ l2') = combine l1 l2 ++ combine l1' l2'.
Proof.
  revert l2. induction l1 as [|a l1 IH]; intros [|b l2] H; cbn in *; try discriminate; [reflexivity|].
  f_equal. apply IH. now inversion H.
Qed.

Lemma forallb_rev {A} (f : A -> bool) l : forallb f (rev l) = forallb f l.
Proof.
  induction l as [|a l IH]; [reflexivity|]. cbn [rev forallb]. rewrite forallb_app, IH. cbn [forallb].
  rewrite Bool.andb_true_r. apply Bool.andb_comm.
Qed.
