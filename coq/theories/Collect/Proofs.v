From Coq Require Import List Arith Bool Lia Permutation.
Import ListNotations.
From DV Require Import Collect.Model.

Lemma lookup_insert_same {V} k (v : V) m : lookup k (insert k v m) = Some v.
Proof.
  induction m as [|[k' v'] r IH]; cbn [insert lookup]; [now rewrite Nat.eqb_refl|].
  destruct (k <? k') eqn:L; cbn [lookup]; [now rewrite Nat.eqb_refl|].
  destruct (k =? k') eqn:E; cbn [lookup]; [now rewrite Nat.eqb_refl|]. rewrite E. exact IH.
Qed.

Lemma lookup_insert_other {V} k k2 (v : V) m : k2 <> k -> lookup k2 (insert k v m) = lookup k2 m.
Proof.
  intros Hne. induction m as [|[k' v'] r IH]; cbn [insert lookup].
  - destruct (Nat.eqb_spec k2 k); [contradiction|reflexivity].
  - destruct (k <? k') eqn:L; cbn [lookup].
    + destruct (Nat.eqb_spec k2 k); [contradiction|reflexivity].
    + destruct (Nat.eqb_spec k k') as [->|E]; cbn [lookup].
      * destruct (Nat.eqb_spec k2 k'); [contradiction|reflexivity].
      * destruct (k2 =? k'); [reflexivity|exact IH].
Qed.

(* the map after reading a module: every named type has exactly the methods of its impl blocks, in source order *)
Lemma step_lookup m it n :
  lookup n (step m it) =
  match it with
  | TypeDecl n' => if n =? n' then Some (match lookup n m with Some ms => ms | None => [] end) else lookup n m
  | ImplBlock n' ms => if n =? n' then Some ((match lookup n m with Some old => old | None => [] end) ++ ms) else lookup n m
  | Other _ => lookup n m
  end.
Proof.
  destruct it as [n'|n' ms|t]; cbn [step]; [| |reflexivity].
  - destruct (Nat.eqb_spec n n') as [->|Hne].
    + destruct (lookup n' m) eqn:E; [exact E|apply lookup_insert_same].
    + destruct (lookup n' m); [reflexivity|now apply lookup_insert_other].
  - destruct (Nat.eqb_spec n n') as [->|Hne].
    + destruct (lookup n' m) eqn:E; rewrite lookup_insert_same; reflexivity.
    + destruct (lookup n' m); now apply lookup_insert_other.
Qed.

Lemma collect_lookup_gen items : forall m n,
  lookup n (fold_left step items m) =
  match lookup n m with
  | Some old => Some (old ++ methods_of n items)
  | None => if existsb (Nat.eqb n) (names_of items) then Some (methods_of n items) else None
  end.
Proof.
  induction items as [|it r IH]; intros m n; cbn [fold_left methods_of names_of flat_map existsb].
  - destruct (lookup n m); [now rewrite app_nil_r|reflexivity].
  - rewrite IH, step_lookup. fold (methods_of n r). fold (names_of r).
    destruct it as [n'|n' ms|t]; cbn [app].
    + destruct (Nat.eqb_spec n n') as [->|Hne]; cbn [existsb app orb].
      * rewrite Nat.eqb_refl. cbn [orb]. destruct (lookup n' m); reflexivity.
      * destruct (Nat.eqb_spec n n'); [contradiction|]. cbn [orb]. reflexivity.
    + destruct (Nat.eqb_spec n n') as [->|Hne]; cbn [existsb app orb].
      * rewrite Nat.eqb_refl. cbn [orb]. destruct (lookup n' m); [now rewrite app_assoc|reflexivity].
      * destruct (Nat.eqb_spec n n'); [contradiction|]. cbn [orb app]. reflexivity.
    + reflexivity.
Qed.

Theorem collect_lookup items n :
  lookup n (collect items) = if existsb (Nat.eqb n) (names_of items) then Some (methods_of n items) else None.
Proof. unfold collect. now rewrite collect_lookup_gen. Qed.

(* the map is key-sorted without duplicates, whatever the order of the items *)
Definition lt_all {V} (k : nat) (m : list (nat * V)) : Prop := forall k' v, In (k', v) m -> k < k'.
Fixpoint Sorted {V} (m : list (nat * V)) : Prop :=
  match m with [] => True | (k, _) :: r => lt_all k r /\ Sorted r end.

Lemma insert_in {V} k (v : V) m k' v' : In (k', v') (insert k v m) -> (k' = k /\ v' = v) \/ In (k', v') m.
Proof.
  induction m as [|[a b] r IH]; cbn [insert].
  - intros [H|[]]. inversion H. now left.
  - destruct (k <? a).
    { intros [H|H]; [inversion H; now left|now right]. }
    destruct (k =? a).
    { intros [H|H]; [inversion H; now left|right; now right]. }
    intros [H|H]; [right; now left|]. destruct (IH H) as [?|?]; [now left|right; now right].
Qed.

Lemma insert_sorted {V} k (v : V) m : Sorted m -> Sorted (insert k v m).
Proof.
  induction m as [|[a b] r IH]; cbn [insert Sorted].
  - intros _. split; [intros ? ? []|exact I].
  - intros [Hlt Hs]. destruct (Nat.ltb_spec k a) as [L|L].
    + cbn [Sorted]. split; [|split; assumption].
      intros k' v' [H|H]; [inversion H; subst; exact L|]. specialize (Hlt k' v' H). lia.
    + destruct (Nat.eqb_spec k a) as [->|E]; cbn [Sorted]; [split; assumption|].
      split; [|apply IH; exact Hs].
      intros k' v' H. destruct (insert_in _ _ _ _ _ H) as [[-> _]|H']; [lia|eapply Hlt; eauto].
Qed.

Lemma step_sorted m it : Sorted m -> Sorted (step m it).
Proof.
  destruct it as [n|n ms|t]; cbn [step]; intros H; [| |exact H].
  - destruct (lookup n m); [exact H|now apply insert_sorted].
  - destruct (lookup n m); now apply insert_sorted.
Qed.

Theorem collect_sorted items : Sorted (collect items).
Proof.
  unfold collect. assert (G : forall m, Sorted m -> Sorted (fold_left step items m)).
  { induction items as [|it r IH]; intros m H; cbn; [exact H|apply IH; now apply step_sorted]. }
  apply G. exact I.
Qed.

(* two key-sorted maps with the same lookups are the same list *)
Lemma sorted_lookup_none {V} k (m : list (nat * V)) : lt_all k m -> forall k', k' <= k -> lookup k' m = None.
Proof.
  induction m as [|[a b] r IH]; intros H k' Hk; cbn; [reflexivity|].
  assert (k < a) by (apply (H a b); now left).
  destruct (Nat.eqb_spec k' a); [lia|]. apply IH; [|exact Hk]. intros x y Hx. apply (H x y). now right.
Qed.

Lemma sorted_ext (m1 m2 : list (nat * list nat)) :
  Sorted m1 -> Sorted m2 -> (forall k, lookup k m1 = lookup k m2) -> m1 = m2.
Proof.
  revert m2. induction m1 as [|[a b] r IH]; intros [|[c d] r2] S1 S2 H.
  - reflexivity.
  - specialize (H c). cbn in H. rewrite Nat.eqb_refl in H. discriminate.
  - specialize (H a). cbn in H. rewrite Nat.eqb_refl in H. discriminate.
  - destruct S1 as [L1 S1], S2 as [L2 S2].
    assert (a = c).
    { pose proof (H a) as Ha. pose proof (H c) as Hc. cbn in Ha, Hc. rewrite Nat.eqb_refl in Ha, Hc.
      destruct (Nat.eqb_spec a c) as [E|E]; [exact E|].
      destruct (Nat.eqb_spec c a) as [E'|E']; [now symmetry|].
      destruct (Nat.lt_total a c) as [Lt|[Eq|Gt]]; [|exact Eq|].
      - rewrite (sorted_lookup_none c r2 L2 a) in Ha by lia. discriminate.
      - rewrite (sorted_lookup_none a r L1 c) in Hc by lia. discriminate. }
    subst c. pose proof (H a) as Ha. cbn in Ha. rewrite Nat.eqb_refl in Ha. inversion Ha; subst d.
    f_equal. apply IH; [exact S1|exact S2|]. intros k. specialize (H k). cbn [lookup] in H.
    destruct (Nat.eqb_spec k a) as [Ek|E]; [|exact H].
    rewrite (sorted_lookup_none a r L1 k), (sorted_lookup_none a r2 L2 k) by lia. reflexivity.
Qed.

(* order independence: any reordering of the items that keeps, for every type, its impl blocks in the same
   relative order (and declares the same names) collects to the same map *)
Theorem collect_order_independent items items' :
  (forall n, existsb (Nat.eqb n) (names_of items) = existsb (Nat.eqb n) (names_of items')) ->
  (forall n, methods_of n items = methods_of n items') ->
  collect items = collect items'.
Proof.
  intros Hn Hm. apply sorted_ext; try apply collect_sorted.
  intros k. rewrite !collect_lookup, Hn, Hm. reflexivity.
Qed.

(* items the reader ignores have no influence *)
Theorem others_ignored l1 t l2 : collect (l1 ++ Other t :: l2) = collect (l1 ++ l2).
Proof. unfold collect. rewrite !fold_left_app. reflexivity. Qed.

(* removing a type nothing refers to leaves every other entry unchanged *)
Definition keep (n : nat) (it : item) : bool :=
  match it with TypeDecl x | ImplBlock x _ => negb (x =? n) | Other _ => true end.

Lemma names_keep n k l : k <> n ->
  existsb (Nat.eqb k) (names_of (filter (keep n) l)) = existsb (Nat.eqb k) (names_of l).
Proof.
  intros Hne. induction l as [|it r IH]; [reflexivity|].
  cbn [filter]. destruct it as [x|x ms|t]; cbn [keep].
  - destruct (Nat.eqb_spec x n) as [->|E]; cbn [negb].
    + change (names_of (TypeDecl n :: r)) with (n :: names_of r). cbn [existsb].
      destruct (Nat.eqb_spec k n); [contradiction|]. exact IH.
    + change (names_of (TypeDecl x :: filter (keep n) r)) with (x :: names_of (filter (keep n) r)).
      change (names_of (TypeDecl x :: r)) with (x :: names_of r). cbn [existsb]. now rewrite IH.
  - destruct (Nat.eqb_spec x n) as [->|E]; cbn [negb].
    + change (names_of (ImplBlock n ms :: r)) with (n :: names_of r). cbn [existsb].
      destruct (Nat.eqb_spec k n); [contradiction|]. exact IH.
    + change (names_of (ImplBlock x ms :: filter (keep n) r)) with (x :: names_of (filter (keep n) r)).
      change (names_of (ImplBlock x ms :: r)) with (x :: names_of r). cbn [existsb]. now rewrite IH.
  - exact IH.
Qed.

Lemma methods_keep n k l : k <> n -> methods_of k (filter (keep n) l) = methods_of k l.
Proof.
  intros Hne. induction l as [|it r IH]; [reflexivity|].
  cbn [filter]. destruct it as [x|x ms|t]; cbn [keep].
  - destruct (x =? n); cbn [negb]; exact IH.
  - destruct (Nat.eqb_spec x n) as [->|E]; cbn [negb].
    + change (methods_of k (ImplBlock n ms :: r)) with ((if k =? n then ms else []) ++ methods_of k r).
      destruct (Nat.eqb_spec k n); [contradiction|]. exact IH.
    + change (methods_of k (ImplBlock x ms :: filter (keep n) r)) with ((if k =? x then ms else []) ++ methods_of k (filter (keep n) r)).
      change (methods_of k (ImplBlock x ms :: r)) with ((if k =? x then ms else []) ++ methods_of k r). now rewrite IH.
  - exact IH.
Qed.

Theorem unrelated_type_local items n k :
  k <> n -> lookup k (collect (filter (keep n) items)) = lookup k (collect items).
Proof. intros Hne. rewrite !collect_lookup. now rewrite names_keep, methods_keep. Qed.

Example collect_example :
  collect [ImplBlock 5 [1]; TypeDecl 9; Other 0; TypeDecl 5; ImplBlock 2 [7; 8]; ImplBlock 5 [3]] = [(2, [7; 8]); (5, [1; 3]); (9, [])].
Proof. reflexivity. Qed.
