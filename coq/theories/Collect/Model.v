(* core/src/ast/modules.rs (Module::from_syn, File) and core/src/environment.rs: items are folded into
   BTreeMaps keyed by name; impl blocks append their methods to the type they belong to.  Names are
   numbers (their order = the string order of the identifiers).  Definitions only. *)
From Coq Require Import List Arith Bool.
Import ListNotations.

Inductive item :=
| TypeDecl (name : nat)
| ImplBlock (name : nat) (methods : list nat)
| Other (tag : nat).          (* anything the bridge reader ignores: use, fn, plain mod, ... *)

(* BTreeMap::insert on a key-sorted association list; an equal key is replaced *)
Fixpoint insert {V} (k : nat) (v : V) (m : list (nat * V)) : list (nat * V) :=
  match m with
  | [] => [(k, v)]
  | (k', v') :: r => if k <? k' then (k, v) :: m else if k =? k' then (k, v) :: r else (k', v') :: insert k v r
  end.
Fixpoint lookup {V} (k : nat) (m : list (nat * V)) : option V :=
  match m with [] => None | (k', v) :: r => if k =? k' then Some v else lookup k r end.

(* one pass over the items of a bridge module: type declarations are inserted by name,
   methods of impl blocks are appended to the entry of their type (created on demand) *)
Definition step (m : list (nat * list nat)) (it : item) : list (nat * list nat) :=
  match it with
  | TypeDecl n => match lookup n m with Some ms => m | None => insert n [] m end
  | ImplBlock n ms => match lookup n m with Some old => insert n (old ++ ms) m | None => insert n ms m end
  | Other _ => m
  end.
Definition collect (items : list item) : list (nat * list nat) := fold_left step items [].

(* the specification: types in name order, each with the methods of its impl blocks in source order *)
Definition names_of (items : list item) : list nat :=
  flat_map (fun it => match it with TypeDecl n | ImplBlock n _ => [n] | Other _ => [] end) items.
Definition methods_of (n : nat) (items : list item) : list nat :=
  flat_map (fun it => match it with ImplBlock n' ms => if n =? n' then ms else [] | _ => [] end) items.

Fixpoint sorted_keys {V} (m : list (nat * V)) : bool :=
  match m with
  | [] | [_] => true
  | (a, _) :: (((b, _) :: _) as r) => (a <? b) && sorted_keys r
  end.

(* ---- correspondence: iteration order the real ast::File reports ---- *)
Fixpoint list_eqb (a b : list nat) : bool :=
  match a, b with [], [] => true | x :: a', y :: b' => (x =? y) && list_eqb a' b' | _, _ => false end.
Fixpoint assoc_eqb (a b : list (nat * list nat)) : bool :=
  match a, b with
  | [], [] => true
  | (k, v) :: a', (k', v') :: b' => (k =? k') && list_eqb v v' && assoc_eqb a' b'
  | _, _ => false
  end.
Definition agree_collect (items : list item) (observed : list (nat * list nat)) : bool := assoc_eqb (collect items) observed.
