From Coq Require Import List Bool String Ascii ZArith Lia.
Import ListNotations.
From DV Require Import Config.Model.
Local Open Scope string_scope.
Local Open Scope list_scope.

Lemma key_eqb_refl k : key_eqb k k = true.
Proof. unfold key_eqb. now rewrite !String.eqb_refl. Qed.

Lemma key_eqb_eq a b : key_eqb a b = true <-> a = b.
Proof.
  destruct a as [a1 a2], b as [b1 b2]. unfold key_eqb; cbn. rewrite andb_true_iff, !String.eqb_eq.
  split; [intros [-> ->]; reflexivity|intros H; inversion H; auto].
Qed.

Lemma lookup_insert m k v k' :
  lookup (insert m k v) k' = if key_eqb k k' then Some v else lookup m k'.
Proof.
  induction m as [|[[l n] v0] r IH]; cbn [insert lookup].
  - destruct k as [k1 k2]. cbn [fst snd]. reflexivity.
  - destruct (key_eqb (l, n) k) eqn:E.
    + apply key_eqb_eq in E. subst k. cbn [lookup]. destruct (key_eqb (l, n) k'); reflexivity.
    + cbn [lookup]. destruct (key_eqb (l, n) k') eqn:E'.
      * apply key_eqb_eq in E'. subst k'.
        destruct (key_eqb k (l, n)) eqn:E2; [|reflexivity].
        apply key_eqb_eq in E2. subst k. now rewrite key_eqb_refl in E.
      * exact IH.
Qed.

Lemma last_write_app sc n a b :
  last_write sc n (a ++ b) = match last_write sc n b with Some v => Some v | None => last_write sc n a end.
Proof.
  induction a as [|[[sc' n'] v] a IH]; cbn [app last_write].
  - destruct (last_write sc n b); reflexivity.
  - rewrite IH. destruct (last_write sc n b); [reflexivity|]. reflexivity.
Qed.

Lemma last_write_one sc n sc' n' v :
  last_write sc n [(sc', n', v)] = if scope_eqb sc sc' && (n =? n') then Some v else None.
Proof. reflexivity. Qed.

Definition str_of (v : option value) : option string := match v with Some (VS x) => Some x | _ => None end.
Definition bool_of (v : option value) : option bool := match v with Some (VB b) => Some b | _ => None end.

Definition typed_for (n : string) (v : value) : Prop :=
  (n = "lib_name" -> exists x, v = VS x) /\ (n = "unsafe_references_in_callbacks" -> exists b, v = VB b).

Lemma well_typed_for sc n v : well_typed (sc, n, v) = true -> typed_for n v.
Proof.
  unfold well_typed, typed_for. intros H. split; intros ->; cbn in H.
  - destruct v; try discriminate. eauto.
  - destruct v; try discriminate. eauto.
Qed.

Lemma last_write_typed sc n ws v :
  forallb well_typed ws = true -> last_write sc n ws = Some v -> typed_for n v.
Proof.
  induction ws as [|[[sc' n'] v'] r IH]; cbn [forallb last_write]; [discriminate|].
  intros H. apply andb_true_iff in H. destruct H as [H1 H2].
  destruct (last_write sc n r) eqn:E.
  - intros Hv. inversion Hv; subst. now apply IH.
  - destruct (scope_eqb sc sc' && (n =? n')) eqn:E2; [|discriminate].
    intros Hv. inversion Hv; subst. apply andb_true_iff in E2. destruct E2 as [_ E2].
    apply String.eqb_eq in E2. subst n'. eapply well_typed_for; eauto.
Qed.

(* state invariant: the configuration mirrors the last writes *)
Definition Inv (c : config) (ws : list write) : Prop :=
  lib_name (sh c) = str_of (last_write None "lib_name" ws) /\
  unsafe_refs (sh c) = bool_of (last_write None "unsafe_references_in_callbacks" ws) /\
  (forall l n, known_lang l = true -> overrides_shared n = true ->
               lookup (ovr c) (l, n) = last_write (Some l) n ws).

Lemma inv_empty : Inv empty [].
Proof. repeat split. Qed.

Lemma scope_eqb_none_some l : scope_eqb None (Some l) = false.
Proof. reflexivity. Qed.

Lemma lang_set_keeps c l n v : sh (lang_set c l n v) = sh c /\ ovr (lang_set c l n v) = ovr c.
Proof.
  unfold lang_set.
  repeat match goal with |- context [if ?b then _ else _] => destruct b end;
  try destruct v; cbn; auto.
Qed.

Lemma set_step c ws sc n v :
  Inv c ws -> well_typed (sc, n, v) = true ->
  exists c', set c sc n v = Some c' /\ Inv c' (ws ++ [(sc, n, v)]).
Proof.
  intros (I1 & I2 & I3) Hw. pose proof (well_typed_for sc n v Hw) as [T1 T2].
  unfold set. destruct sc as [l|].
  - (* scoped *)
    destruct (known_lang l) eqn:Hk.
    + destruct (overrides_shared n) eqn:Ho.
      * eexists. split; [reflexivity|]. unfold Inv, with_ovr; cbn [sh ovr].
        rewrite !last_write_app, !last_write_one. cbn [scope_eqb andb].
        split; [exact I1|]. split; [exact I2|].
        intros l' n' Hk' Ho'. rewrite lookup_insert, last_write_app, last_write_one. cbn [scope_eqb].
        unfold key_eqb; cbn [fst snd].
        rewrite (String.eqb_sym l l'), (String.eqb_sym n n').
        destruct ((l' =? l) && (n' =? n)); [reflexivity|]. now apply I3.
      * eexists. split; [reflexivity|]. destruct (lang_set_keeps c l n v) as [E1 E2].
        unfold Inv. rewrite E1, E2, !last_write_app, !last_write_one. cbn [scope_eqb andb].
        split; [exact I1|]. split; [exact I2|].
        intros l' n' Hk' Ho'. rewrite last_write_app, last_write_one. cbn [scope_eqb].
        destruct (String.eqb_spec n' n) as [->|Hn]; [congruence|]. rewrite andb_false_r. now apply I3.
    + eexists. split; [reflexivity|]. unfold Inv.
      rewrite !last_write_app, !last_write_one. cbn [scope_eqb andb].
      split; [exact I1|]. split; [exact I2|].
      intros l' n' Hk' Ho'. rewrite last_write_app, last_write_one. cbn [scope_eqb].
      destruct (String.eqb_spec l' l) as [->|Hn]; [congruence|]. cbn [andb]. now apply I3.
  - (* shared *)
    unfold shared_set.
    destruct (String.eqb_spec n "lib_name") as [->|N1].
    + destruct (T1 eq_refl) as [x ->]. eexists. split; [reflexivity|]. unfold Inv, with_sh; cbn [sh ovr lib_name unsafe_refs].
      rewrite !last_write_app, !last_write_one. cbn [scope_eqb andb String.eqb Ascii.eqb Bool.eqb]. cbn.
      split; [reflexivity|]. split; [exact I2|].
      intros l' n' Hk' Ho'. rewrite last_write_app, last_write_one. cbn [scope_eqb andb]. now apply I3.
    + destruct (String.eqb_spec n "unsafe_references_in_callbacks") as [->|N2].
      * destruct (T2 eq_refl) as [b ->]. eexists. split; [reflexivity|]. unfold Inv, with_sh; cbn [sh ovr lib_name unsafe_refs].
        rewrite !last_write_app, !last_write_one. cbn.
        split; [exact I1|]. split; [reflexivity|].
        intros l' n' Hk' Ho'. rewrite last_write_app, last_write_one. cbn [scope_eqb andb]. now apply I3.
      * eexists. split; [reflexivity|]. unfold Inv, with_sh; cbn [sh ovr lib_name unsafe_refs option_map].
        rewrite !last_write_app, !last_write_one. cbn [scope_eqb andb].
        destruct (String.eqb_spec "lib_name" n) as [E|_]; [congruence|].
        destruct (String.eqb_spec "unsafe_references_in_callbacks" n) as [E|_]; [congruence|].
        split; [exact I1|]. split; [exact I2|].
        intros l' n' Hk' Ho'. rewrite last_write_app, last_write_one. cbn [scope_eqb andb]. now apply I3.
Qed.

Lemma run_inv ws' : forall c ws,
  Inv c ws -> forallb well_typed ws' = true ->
  exists c', run c ws' = Some c' /\ Inv c' (ws ++ ws').
Proof.
  induction ws' as [|[[sc n] v] r IH]; intros c ws HI Hw; cbn [run].
  - exists c. rewrite app_nil_r. auto.
  - cbn [forallb] in Hw. apply andb_true_iff in Hw. destruct Hw as [H1 H2].
    destruct (set_step c ws sc n v HI H1) as (c1 & Hs & HI1). rewrite Hs.
    destruct (IH c1 (ws ++ [(sc, n, v)]) HI1 H2) as (c' & Hr & HI').
    exists c'. split; [exact Hr|]. now rewrite <- app_assoc in HI'.
Qed.

(* the documented precedence, for every finite sequence of writes from the three sources *)
Theorem effective_correct ws lang :
  known_lang lang = true -> forallb well_typed ws = true ->
  exists c s, run empty ws = Some c /\ get_overridden c lang = Some s /\
    lib_name s = str_of (effective lang "lib_name" ws) /\
    unsafe_refs s = bool_of (effective lang "unsafe_references_in_callbacks" ws).
Proof.
  intros Hk Hw. destruct (run_inv ws empty [] inv_empty Hw) as (c & Hr & I1 & I2 & I3). cbn [app] in *.
  exists c. unfold get_overridden, apply_ovr, effective.
  rewrite (I3 lang "lib_name" Hk eq_refl), (I3 lang "unsafe_references_in_callbacks" Hk eq_refl).
  destruct (last_write (Some lang) "lib_name" ws) as [v1|] eqn:E1.
  - destruct (last_write_typed _ _ _ _ Hw E1) as [[x ->] _]; [reflexivity|]. cbn [shared_set String.eqb]. cbn.
    destruct (last_write (Some lang) "unsafe_references_in_callbacks" ws) as [v2|] eqn:E2.
    + destruct (last_write_typed _ _ _ _ Hw E2) as [_ [b ->]]; [reflexivity|]. cbn.
      eexists. split; [exact Hr|]. split; [reflexivity|]. cbn. split; reflexivity.
    + eexists. split; [exact Hr|]. split; [reflexivity|]. cbn. split; [reflexivity|exact I2].
  - destruct (last_write (Some lang) "unsafe_references_in_callbacks" ws) as [v2|] eqn:E2.
    + destruct (last_write_typed _ _ _ _ Hw E2) as [_ [b ->]]; [reflexivity|]. cbn.
      eexists. split; [exact Hr|]. split; [reflexivity|]. cbn. split; [exact I1|reflexivity].
    + eexists. split; [exact Hr|]. split; [reflexivity|]. split; [exact I1|exact I2].
Qed.

(* a language-scoped key overrides the shared key only for that language *)
Theorem scoped_only_that_language ws l l' n v :
  l <> l' -> effective l' n (ws ++ [(Some l, n, v)]) = effective l' n ws.
Proof.
  intros Hne. unfold effective. rewrite !last_write_app, !last_write_one. cbn [scope_eqb andb].
  destruct (String.eqb_spec l' l) as [E|_]; [congruence|]. cbn [andb]. reflexivity.
Qed.

(* the three sources in the documented order: an attribute beats the CLI beats the file, per storage slot *)
Theorem source_order file cli attr sc n :
  last_write sc n (sources file cli attr) =
  match last_write sc n attr with
  | Some v => Some v
  | None => match last_write sc n cli with
            | Some v => Some v
            | None => last_write sc n (map file_write file)
            end
  end.
Proof.
  unfold sources. rewrite !last_write_app.
  destruct (last_write sc n attr); [reflexivity|]. destruct (last_write sc n cli); reflexivity.
Qed.

(* kebab-case keys in the file mean the same as snake_case keys *)
Lemma snake_idem s : snake (snake s) = snake s.
Proof.
  induction s as [|a r IH]; cbn; [reflexivity|]. rewrite IH. f_equal.
  unfold snake_char. destruct (Ascii.eqb a "-") eqn:E; [reflexivity|]. now rewrite E.
Qed.
Theorem kebab_snake_equiv file cli attr :
  sources (map file_write file) cli attr = sources file cli attr.
Proof.
  unfold sources. f_equal. rewrite map_map. apply map_ext. intros [[sc n] v]. cbn.
  rewrite snake_idem. destruct sc; cbn; [now rewrite snake_idem|reflexivity].
Qed.
Example kebab_example : snake "unsafe-references-in-callbacks" = "unsafe_references_in_callbacks".
Proof. reflexivity. Qed.

Example effective_example :
  let ws := sources [(None, "lib-name", VS "f"); (Some "kotlin", "lib-name", VS "kf")] [(None, "lib_name", VS "c")] [(None, "lib_name", VS "a")] in
  effective "kotlin" "lib_name" ws = Some (VS "kf") /\ effective "js" "lib_name" ws = Some (VS "a") /\
  observe [(None, "lib-name", VS "f"); (Some "kotlin", "lib-name", VS "kf")] [(None, "lib_name", VS "c")] [(None, "lib_name", VS "a")] "kotlin"
    = Some (mkObs (Some "kf") None None None false (None, None, None, None)).
Proof. repeat split. Qed.
