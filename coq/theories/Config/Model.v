(* tool/src/config.rs: Config::set / get_overridden / read_file / read_cli_settings and the per-language
   set functions (kotlin/mod.rs, js/mod.rs, demo_gen/mod.rs).  Keys are split at their first '.' by the
   correspondence layer: scope = None for a shared key, Some l for "l.name".  Definitions only. *)
From Coq Require Import List Bool String Ascii ZArith.
Import ListNotations.
Local Open Scope string_scope.

Inductive value := VS (s : string) | VB (b : bool) | VI (z : Z).

Record shared := mkShared { lib_name : option string; unsafe_refs : option bool }.
Record config := mkConfig {
  sh : shared;
  kt_domain : option string; kt_fin : option bool;
  js_spec : bool;
  dg_explicit : option bool; dg_hide : option bool; dg_module : option string; dg_relpath : option string;
  ovr : list (string * string * value)       (* language_overrides: unique (lang, name) keys *)
}.
Definition empty : config :=
  mkConfig (mkShared None None) None None false None None None None [].

Definition as_bool (v : value) : option bool := match v with VB b => Some b | _ => None end.
Definition as_str (v : value) : option string := match v with VS s => Some s | _ => None end.

(* SharedConfig::set — panics (None) on a value of the wrong type *)
Definition shared_set (s : shared) (name : string) (v : value) : option shared :=
  if name =? "lib_name" then
    match v with VS x => Some (mkShared (Some x) (unsafe_refs s)) | _ => None end
  else if name =? "unsafe_references_in_callbacks" then
    match v with VB b => Some (mkShared (lib_name s) (Some b)) | _ => None end
  else Some s.

Definition overrides_shared (name : string) : bool :=
  (name =? "lib_name") || (name =? "unsafe_references_in_callbacks").

Definition key_eqb (a b : string * string) : bool := (fst a =? fst b) && (snd a =? snd b).
Fixpoint lookup (m : list (string * string * value)) (k : string * string) : option value :=
  match m with
  | [] => None
  | (l, n, v) :: r => if key_eqb (l, n) k then Some v else lookup r k
  end.
Fixpoint insert (m : list (string * string * value)) (k : string * string) (v : value) :=
  match m with
  | [] => [(fst k, snd k, v)]
  | (l, n, v0) :: r => if key_eqb (l, n) k then (l, n, v) :: r else (l, n, v0) :: insert r k v
  end.

Definition known_lang (l : string) : bool :=
  (l =? "kotlin") || (l =? "demo_gen") || (l =? "nanobind") || (l =? "js").

Definition with_sh c s := mkConfig s (kt_domain c) (kt_fin c) (js_spec c) (dg_explicit c) (dg_hide c) (dg_module c) (dg_relpath c) (ovr c).
Definition with_ovr c o := mkConfig (sh c) (kt_domain c) (kt_fin c) (js_spec c) (dg_explicit c) (dg_hide c) (dg_module c) (dg_relpath c) o.

(* KotlinConfig::set, JsConfig::set, DemoConfig::set *)
Definition lang_set (c : config) (l name : string) (v : value) : config :=
  if l =? "kotlin" then
    if name =? "domain" then
      match v with VS x => mkConfig (sh c) (Some x) (kt_fin c) (js_spec c) (dg_explicit c) (dg_hide c) (dg_module c) (dg_relpath c) (ovr c) | _ => c end
    else if name =? "use_finalizers_not_cleaners" then
      mkConfig (sh c) (kt_domain c) (as_bool v) (js_spec c) (dg_explicit c) (dg_hide c) (dg_module c) (dg_relpath c) (ovr c)
    else c
  else if l =? "js" then
    if name =? "abi" then
      mkConfig (sh c) (kt_domain c) (kt_fin c) (match v with VS "spec" => true | _ => false end) (dg_explicit c) (dg_hide c) (dg_module c) (dg_relpath c) (ovr c)
    else c
  else if l =? "demo_gen" then
    if name =? "explicit_generation" then mkConfig (sh c) (kt_domain c) (kt_fin c) (js_spec c) (as_bool v) (dg_hide c) (dg_module c) (dg_relpath c) (ovr c)
    else if name =? "hide_default_renderer" then mkConfig (sh c) (kt_domain c) (kt_fin c) (js_spec c) (dg_explicit c) (as_bool v) (dg_module c) (dg_relpath c) (ovr c)
    else if name =? "module_name" then mkConfig (sh c) (kt_domain c) (kt_fin c) (js_spec c) (dg_explicit c) (dg_hide c) (as_str v) (dg_relpath c) (ovr c)
    else if name =? "relative_js_path" then mkConfig (sh c) (kt_domain c) (kt_fin c) (js_spec c) (dg_explicit c) (dg_hide c) (dg_module c) (as_str v) (ovr c)
    else c
  else c.  (* nanobind has no settings of its own *)

(* Config::set *)
Definition set (c : config) (scope : option string) (name : string) (v : value) : option config :=
  match scope with
  | None => option_map (with_sh c) (shared_set (sh c) name v)
  | Some l =>
      if known_lang l then
        if overrides_shared name then Some (with_ovr c (insert (ovr c) (l, name) v))
        else Some (lang_set c l name v)
      else Some c       (* "x.name" with an unknown prefix is a shared key nobody reads *)
  end.

(* Config::get_overridden: every override stored for the target language is written into the shared config *)
Definition apply_ovr (target name : string) (c : config) (s : option shared) : option shared :=
  match s with
  | None => None
  | Some s => match lookup (ovr c) (target, name) with Some v => shared_set s name v | None => Some s end
  end.
Definition get_overridden (c : config) (target : string) : option shared :=
  apply_ovr target "unsafe_references_in_callbacks" c (apply_ovr target "lib_name" c (Some (sh c))).

(* a write: which key, which value; the three sources are applied file, then CLI, then attributes *)
Definition write := (option string * string * value)%type.
Fixpoint run (c : config) (ws : list write) : option config :=
  match ws with
  | [] => Some c
  | (sc, n, v) :: r => match set c sc n v with Some c' => run c' r | None => None end
  end.

(* read_file: kebab-case -> snake_case on key and sub-key (heck::AsSnakeCase on lower-case kebab input) *)
Definition snake_char (a : ascii) : ascii := if Ascii.eqb a "-"%char then "_"%char else a.
Fixpoint snake (s : string) : string :=
  match s with EmptyString => EmptyString | String a r => String (snake_char a) (snake r) end.
Definition file_write (w : write) : write :=
  let '(sc, n, v) := w in (option_map snake sc, snake n, v).
Definition sources (file cli attr : list write) : list write := map file_write file ++ cli ++ attr.

(* ---- specification: documented precedence ---- *)
Definition scope_eqb (a b : option string) : bool :=
  match a, b with None, None => true | Some x, Some y => x =? y | _, _ => false end.
Fixpoint last_write (sc : option string) (n : string) (ws : list write) : option value :=
  match ws with
  | [] => None
  | (sc', n', v) :: r =>
      match last_write sc n r with
      | Some v' => Some v'
      | None => if scope_eqb sc sc' && (n =? n') then Some v else None
      end
  end.
(* the effective value of a shared key for a language: the last language-scoped write if there is one,
   else the last shared write *)
Definition effective (lang n : string) (ws : list write) : option value :=
  match last_write (Some lang) n ws with
  | Some v => Some v
  | None => last_write None n ws
  end.
Definition well_typed (w : write) : bool :=
  let '(_, n, v) := w in
  if n =? "lib_name" then match v with VS _ => true | _ => false end
  else if n =? "unsafe_references_in_callbacks" then match v with VB _ => true | _ => false end
  else true.

(* ---- correspondence: all observable fields of the effective configuration ---- *)
Record obs := mkObs { o_lib : option string; o_unsafe : option bool; o_domain : option string; o_fin : option bool;
                      o_spec : bool; o_dg : option bool * option bool * option string * option string }.
Definition opt_eqb {A} (f : A -> A -> bool) (a b : option A) : bool :=
  match a, b with None, None => true | Some x, Some y => f x y | _, _ => false end.
Definition observe (file cli attr : list write) (target : string) : option obs :=
  match run empty (sources file cli attr) with
  | None => None
  | Some c => match get_overridden c target with
              | None => None
              | Some s => Some (mkObs (lib_name s) (unsafe_refs s) (kt_domain c) (kt_fin c) (js_spec c)
                                      (dg_explicit c, dg_hide c, dg_module c, dg_relpath c))
              end
  end.
Definition obs_eqb (a b : obs) : bool :=
  opt_eqb String.eqb (o_lib a) (o_lib b) && opt_eqb Bool.eqb (o_unsafe a) (o_unsafe b) &&
  opt_eqb String.eqb (o_domain a) (o_domain b) && opt_eqb Bool.eqb (o_fin a) (o_fin b) && Bool.eqb (o_spec a) (o_spec b) &&
  (let '(a1, a2, a3, a4) := o_dg a in let '(b1, b2, b3, b4) := o_dg b in
   opt_eqb Bool.eqb a1 b1 && opt_eqb Bool.eqb a2 b2 && opt_eqb String.eqb a3 b3 && opt_eqb String.eqb a4 b4).
Definition agree_cfg (file cli attr : list write) (target : string) (o : option obs) : bool :=
  opt_eqb obs_eqb (observe file cli attr target) o.
