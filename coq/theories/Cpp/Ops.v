(* C++ bindings: the code the backend synthesises around special methods (tool/templates/cpp/method_impl.h.jinja):
   the six relational operators derived from a `comparison` method, and the compound assignment `a op= b` derived
   from a binary arithmetic method on a value type.  The Rust methods themselves are parameters. *)
From Coq Require Import List ZArith Bool Lia.
Import ListNotations.
Open Scope Z_scope.

(* operator==, !=, <=, >=, <, > in the order the template emits them; c is the int8 the comparison returned *)
Definition rels_of (c : Z) : list bool := [c =? 0; negb (c =? 0); c <=? 0; c >=? 0; c <? 0; c >? 0].

Section Compound.
  Variable T : Type.
  Variable op : T -> T -> T.          (* the Rust method behind `operator op` *)
  (* `*this = *this op rhs; return *this;` *)
  Definition compound (this rhs : T) : T := op this rhs.
  (* (a op= b1) op= b2 ...: the returned reference is the updated object *)
  Definition compound_chain (a : T) (bs : list T) : T := fold_left compound bs a.

  Lemma compound_chain_snoc a bs b : compound_chain a (bs ++ [b]) = op (compound_chain a bs) b.
  Proof. unfold compound_chain. rewrite fold_left_app. reflexivity. Qed.
End Compound.

(* the derived operators describe one trichotomy: exactly one of <, ==, > holds, and the others are its complements *)
Lemma rels_trichotomy c :
  match rels_of c with
  | [eq; ne; le; ge; lt; gt] =>
      ne = negb eq /\ le = negb gt /\ ge = negb lt /\ le = (lt || eq) /\ ge = (gt || eq) /\
      (if lt then negb eq && negb gt else if eq then negb gt else gt) = true
  | _ => False
  end.
Proof.
  unfold rels_of.
  destruct (Z.eqb_spec c 0) as [->|Hne]; [cbn; repeat split|].
  destruct (Z.leb_spec c 0), (Z.geb_spec c 0), (Z.ltb_spec c 0), (Z.gtb_spec c 0); cbn; repeat split; lia.
Qed.

(* with an antisymmetric comparison (cmp b a = - cmp a b, as Ord::cmp is), swapping the operands mirrors the operators *)
Lemma rels_swap c :
  match rels_of c, rels_of (- c) with
  | [eq; ne; le; ge; lt; gt], [eq'; ne'; le'; ge'; lt'; gt'] => eq' = eq /\ ne' = ne /\ le' = ge /\ ge' = le /\ lt' = gt /\ gt' = lt
  | _, _ => False
  end.
Proof.
  unfold rels_of.
  destruct (Z.eqb_spec c 0), (Z.eqb_spec (- c) 0), (Z.leb_spec c 0), (Z.geb_spec c 0), (Z.ltb_spec c 0), (Z.gtb_spec c 0),
           (Z.leb_spec (- c) 0), (Z.geb_spec (- c) 0), (Z.ltb_spec (- c) 0), (Z.gtb_spec (- c) 0); cbn; repeat split; lia.
Qed.

(* ---- correspondence ---- *)
Fixpoint bools_eqb (a b : list bool) : bool :=
  match a, b with [], [] => true | x :: a', y :: b' => Bool.eqb x y && bools_eqb a' b' | _, _ => false end.
(* the operators C++ evaluated on (a, b) against the value Rust's comparison returned for (a, b) *)
Definition agree_rels (cmp : Z) (observed : list bool) : bool := bools_eqb (rels_of cmp) observed.

Fixpoint zs_eqb (a b : list Z) : bool :=
  match a, b with [], [] => true | x :: a', y :: b' => Z.eqb x y && zs_eqb a' b' | _, _ => false end.
(* values are observed as integer tuples; `binary` is what `a op b` gave, `then_b` what `(a op b) op b` gave *)
Definition agree_compound (binary compound_obs : list Z) : bool := zs_eqb binary compound_obs.
