From Coq Require Import List ZArith Bool Lia.
Import ListNotations.
From DV Require Import Utf8.Model Utf8.Proofs Cpp.Model.

Section TyInd.
  Variable P : ty -> Prop.
  Hypothesis HS : P TScalar.
  Hypothesis HR : forall l, Forall P l -> P (TStruct l).
  Hypothesis HO : forall t, P t -> P (TOpt t).
  Hypothesis HP : P TPtrOpt.
  Hypothesis HV : P TView.
  Fixpoint ty_ind' (t : ty) : P t :=
    match t with
    | TScalar => HS
    | TStruct l => HR l ((fix go (l : list ty) : Forall P l :=
                            match l with [] => Forall_nil P | x :: r => Forall_cons x (ty_ind' x) (go r) end) l)
    | TOpt t' => HO t' (ty_ind' t')
    | TPtrOpt => HP
    | TView => HV
    end.
End TyInd.

(* values of every nesting depth arrive unchanged *)
Theorem to_cpp_to_c t : forall x, well_typed t x = true -> to_cpp t (to_c t x) = x.
Proof.
  induction t as [|ts IH|t IH| |] using ty_ind'; intros x H; destruct x; cbn in H; try discriminate.
  - reflexivity.
  - cbn [to_c to_cpp]. f_equal. revert fs H. induction IH as [|t ts Ht _ IHts]; intros [|x xs] H; try discriminate; [reflexivity|].
    apply andb_true_iff in H. destruct H as [H1 H2]. f_equal; [apply Ht; exact H1|apply IHts; exact H2].
  - destruct o as [y|]; cbn [to_c to_cpp]; [|reflexivity]. now rewrite IH.
  - destruct p as [p|]; cbn [to_c to_cpp]; [|reflexivity]. apply negb_true_iff in H. now rewrite H.
  - reflexivity.
Qed.

(* the arm taken and its payload survive the return conversion *)
Theorem ret_arm_preserved tok terr r :
  match r with ROk a => well_typed tok a = true | RErr b => well_typed terr b = true end ->
  let '(po, pe, flag) := ret_to_c tok terr r in ret_to_cpp tok terr po pe flag = r.
Proof.
  destruct r as [a|b]; intros H; cbn; f_equal; now apply to_cpp_to_c.
Qed.

(* a None never exposes a stale payload *)
Theorem none_ignores_payload t junk : to_cpp (TOpt t) (COpt junk false) = VOptV None.
Proof. destruct junk; reflexivity. Qed.

(* a directly passed &str that is not valid UTF-8 is rejected before the C call; valid ones reach Rust unchanged *)
Theorem invalid_utf8_never_reaches_rust bytes :
  (~ wf_utf8 bytes -> call_with_str bytes = Utf8Error) /\
  (wf_utf8 bytes -> call_with_str bytes = ReachesRust bytes).
Proof.
  unfold call_with_str. destruct (utf8_valid bytes) eqn:E; split; intros H.
  - exfalso. apply H. now apply utf8_dfa_correct.
  - reflexivity.
  - reflexivity.
  - apply utf8_dfa_correct in H. congruence.
Qed.

Local Open Scope Z_scope.
Example transport_example :
  agree_transport (TStruct [TScalar; TOpt (TStruct [TScalar; TOpt TScalar]); TPtrOpt; TView])
    (VRec [VS 7; VOptV (Some (VRec [VS (-1); VOptV None])); VPtr (Some 4096); VViewV [1; 2; 3]])
    (VRec [VS 7; VOptV (Some (VRec [VS (-1); VOptV None])); VPtr (Some 4096); VViewV [1; 2; 3]]) = true.
Proof. reflexivity. Qed.
