(* C++ bindings: conversion semantics of the generated wrappers (tool/src/cpp/ty.rs gen_cpp_to_c_for_type /
   gen_c_to_cpp_for_type / gen_c_to_cpp_for_return_type and the struct/enum templates) over an abstract
   value domain, and the UTF-8 guard for directly passed &str.  Definitions only. *)
From Coq Require Import List ZArith Bool.
Import ListNotations.
From DV Require Import Utf8.Model.

(* value-level type grammar (by-value data crossing the boundary) *)
Inductive ty :=
| TScalar                                   (* primitives, enums: passed as is / AsFFI = static_cast *)
| TStruct (fields : list ty)
| TOpt (payload : ty)                       (* std::optional<T>  <->  {union {T ok;}; bool is_ok;} *)
| TPtrOpt                                   (* const T* / unique_ptr : nullptr <-> NULL *)
| TView.                                    (* span / string_view <-> {data, len} *)

(* C++-side values *)
Inductive v :=
| VS (z : Z) | VRec (fs : list v) | VOptV (o : option v) | VPtr (p : option Z) | VViewV (elems : list Z).
(* C-side values; an absent payload holds whatever the conversion left there *)
Inductive c :=
| CS (z : Z) | CRec (fs : list c) | COpt (payload : option c) (is_ok : bool) | CPtr (p : Z) | CView (data : option (list Z)).

(* gen_cpp_to_c_for_type / AsFFI *)
Fixpoint to_c (t : ty) (x : v) {struct t} : c :=
  match t, x with
  | TScalar, VS z => CS z
  | TStruct ts, VRec xs =>
      CRec ((fix go (ts : list ty) (xs : list v) : list c :=
               match ts, xs with t' :: ts', x' :: xs' => to_c t' x' :: go ts' xs' | _, _ => [] end) ts xs)
  | TOpt t', VOptV (Some y) => COpt (Some (to_c t' y)) true
  | TOpt _, VOptV None => COpt None false
  | TPtrOpt, VPtr (Some p) => CPtr p
  | TPtrOpt, VPtr None => CPtr 0
  | TView, VViewV l => CView (Some l)
  | _, _ => CS 0
  end.
(* gen_c_to_cpp_for_type / FromFFI *)
Fixpoint to_cpp (t : ty) (x : c) {struct t} : v :=
  match t, x with
  | TScalar, CS z => VS z
  | TStruct ts, CRec xs =>
      VRec ((fix go (ts : list ty) (xs : list c) : list v :=
               match ts, xs with t' :: ts', x' :: xs' => to_cpp t' x' :: go ts' xs' | _, _ => [] end) ts xs)
  | TOpt t', COpt (Some y) true => VOptV (Some (to_cpp t' y))
  | TOpt _, COpt _ _ => VOptV None          (* is_ok = false: payload ignored *)
  | TPtrOpt, CPtr p => VPtr (if Z.eqb p 0 then None else Some p)
  | TView, CView (Some l) => VViewV l
  | TView, CView None => VViewV []          (* NULL data *)
  | _, _ => VS 0
  end.

Fixpoint well_typed (t : ty) (x : v) {struct t} : bool :=
  match t, x with
  | TScalar, VS _ => true
  | TStruct ts, VRec xs =>
      (fix go (ts : list ty) (xs : list v) : bool :=
         match ts, xs with
         | [], [] => true
         | t' :: ts', x' :: xs' => well_typed t' x' && go ts' xs'
         | _, _ => false
         end) ts xs
  | TOpt t', VOptV (Some y) => well_typed t' y
  | TOpt _, VOptV None => true
  | TPtrOpt, VPtr (Some p) => negb (Z.eqb p 0)      (* live pointers are non-null *)
  | TPtrOpt, VPtr None => true
  | TView, VViewV _ => true
  | _, _ => false
  end.

(* diplomat::result<T, E> returned for Result<T,E>: which arm, which payload *)
Inductive res (A B : Type) := ROk (a : A) | RErr (b : B).
Arguments ROk {A B}. Arguments RErr {A B}.
Definition ret_to_cpp (tok terr : ty) (payload_ok payload_err : c) (is_ok : bool) : res v v :=
  if is_ok then ROk (to_cpp tok payload_ok) else RErr (to_cpp terr payload_err).
Definition ret_to_c (tok terr : ty) (r : res v v) : c * c * bool :=
  match r with ROk a => (to_c tok a, CS 0, true) | RErr b => (CS 0, to_c terr b, false) end.

(* a method with a directly passed &str: the wrapper validates before calling into Rust *)
Inductive outcome := Utf8Error | ReachesRust (bytes : list N).
Definition call_with_str (bytes : list N) : outcome :=
  if utf8_valid bytes then ReachesRust bytes else Utf8Error.

(* ---- correspondence ---- *)
Fixpoint v_eqb (a b : v) {struct a} : bool :=
  match a, b with
  | VS x, VS y => Z.eqb x y
  | VRec l, VRec m => (fix go (l m : list v) : bool := match l, m with [], [] => true | x :: l', y :: m' => v_eqb x y && go l' m' | _, _ => false end) l m
  | VOptV None, VOptV None => true
  | VOptV (Some x), VOptV (Some y) => v_eqb x y
  | VPtr None, VPtr None => true
  | VPtr (Some x), VPtr (Some y) => Z.eqb x y
  | VViewV l, VViewV m => (fix go (l m : list Z) : bool := match l, m with [], [] => true | x :: l', y :: m' => Z.eqb x y && go l' m' | _, _ => false end) l m
  | _, _ => false
  end.
(* a value sent through the generated conversions (C++ -> C -> Rust logs it; Rust -> C -> C++) is observed unchanged *)
Definition agree_transport (t : ty) (sent observed : v) : bool := v_eqb (to_cpp t (to_c t sent)) observed.
Definition agree_str_guard (bytes : list N) (reached : bool) : bool :=
  match call_with_str bytes with ReachesRust _ => reached | Utf8Error => negb reached end.
