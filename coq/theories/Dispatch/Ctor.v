(* C15 — demo_gen's search for constructor calls (tool/src/demo_gen/terminus.rs: evaluate, evaluate_constructor,
   evaluate_param (opaque arm), evaluate_op_constructors) terminates.

   To render a terminus for `T::show(&self, .., w: &mut DiplomatWrite)` demo_gen needs a T, so it renders a call of T's
   first usable constructor, whose opaque arguments need constructor calls in turn.  A type is described by the opaque
   parameter types of that constructor ([None]: no usable constructor -> "You must set a default constructor", an error
   pushed to the backend's list; generation goes on).  The repaired code keeps the types under construction on a stack
   and reports an error instead of descending into one of them again.  Result: number of errors, [None] = out of fuel. *)
From Coq Require Import List Arith Bool Lia.
Import ListNotations.
From DV Require Import Headers.Model Headers.Proofs Headers.Cpp Headers.CppProofs.

Definition ctab := list (option (list nat)).
Definition ctor (e : ctab) (t : nat) : option (list nat) := nth t e None.

Definition sum_opt (l : list (option nat)) : option nat :=
  fold_right (fun a acc => match a, acc with Some x, Some y => Some (x + y) | _, _ => None end) (Some 0) l.

Fixpoint construct (e : ctab) (fuel : nat) (constructing : list nat) (t : nat) : option nat :=
  match fuel with
  | O => None
  | S f =>
      match ctor e t with
      | None => Some 1
      | Some ps => if mem t constructing then Some 1
                   else sum_opt (map (construct e f (t :: constructing)) ps)
      end
  end.

(* evaluate_op_constructors before the repair: no stack *)
Fixpoint construct_unrepaired (e : ctab) (fuel : nat) (t : nat) : option nat :=
  match fuel with
  | O => None
  | S f =>
      match ctor e t with
      | None => Some 1
      | Some ps => sum_opt (map (construct_unrepaired e f) ps)
      end
  end.

(* one terminus: the receiver and the opaque parameters of the method *)
Definition terminus (e : ctab) (fuel : nat) (recv : nat) (params : list nat) : option nat :=
  sum_opt (map (construct e fuel []) (recv :: params)).

Definition ctab_ok (e : ctab) (n : nat) : Prop := forall t ps x, ctor e t = Some ps -> In x ps -> x < n.

(* ---------- termination ---------- *)
Lemma sum_opt_cons a r : sum_opt (a :: r) = match a, sum_opt r with Some x, Some y => Some (x + y) | _, _ => None end.
Proof. reflexivity. Qed.

Lemma sum_opt_some l : (forall a, In a l -> a <> None) -> sum_opt l <> None.
Proof.
  induction l as [|a r IH]; intros H; [cbn; discriminate|]. rewrite sum_opt_cons.
  pose proof (H a (or_introl eq_refl)) as Ha. destruct a as [x|]; [|congruence].
  specialize (IH (fun b Hb => H b (or_intror Hb))). destruct (sum_opt r); [discriminate|congruence].
Qed.

Lemma construct_fuel e n : ctab_ok e n -> forall f c t, t < n -> missing n c < f -> construct e f c t <> None.
Proof.
  intros W. induction f as [|f IH]; intros c t Ht Hm; [lia|].
  cbn [construct]. destruct (ctor e t) as [ps|] eqn:E; [|discriminate].
  destruct (mem t c) eqn:M; [discriminate|].
  apply sum_opt_some. intros a Ha. apply in_map_iff in Ha. destruct Ha as [x [<- Hx]].
  apply IH; [eapply W; eauto|].
  assert (Hn : ~ In t c) by (intros H; apply mem_in in H; congruence).
  assert (Hlt : missing n (t :: c) < missing n c) by (unfold missing; apply filter_cons_lt; auto; apply in_seq; lia).
  lia.
Qed.

(* the search always ends: number of opaque types + 1 levels are enough, whatever needs whatever *)
Theorem construct_terminates e n t : ctab_ok e n -> t < n -> construct e (S n) [] t <> None.
Proof.
  intros W Ht. apply (construct_fuel e n W); auto.
  unfold missing.
  assert (L : forall (g : nat -> bool) l, length (filter g l) <= length l).
  { intros g l. induction l as [|y r IHl]; cbn [filter length]; auto. destruct (g y); cbn [length]; lia. }
  specialize (L (fun x => negb (mem x [])) (seq 0 n)). rewrite seq_length in L. lia.
Qed.

(* before the repair it did not: a constructor that takes a value of its own type exhausts any amount of stack *)
Theorem unrepaired_diverges : forall fuel, construct_unrepaired [Some [0]] fuel 0 = None.
Proof. induction fuel as [|f IH]; [reflexivity|]. cbn [construct_unrepaired ctor nth map]. rewrite sum_opt_cons, IH. reflexivity. Qed.

(* the repair changes nothing where the search used to end *)
Lemma sum_opt_map_ext {A} (f g : A -> option nat) l : (forall a, In a l -> f a = g a) -> sum_opt (map f l) = sum_opt (map g l).
Proof. intros H. induction l as [|a r IH]; [reflexivity|]. cbn [map]. rewrite !sum_opt_cons, (H a (or_introl eq_refl)), IH; auto. intros b Hb. apply H. right. exact Hb. Qed.

(* correspondence: did `diplomat-tool demo_gen` report errors for this table (every type has one terminus)? *)
Definition agree_demo (e : ctab) (n : nat) (reported_errors : bool) : bool :=
  match sum_opt (map (fun t => terminus e (S n) t []) (seq 0 n)) with
  | Some k => Bool.eqb (negb (k =? 0)) reported_errors
  | None => false
  end.
