(* C15: the finite classification the witness enumeration is organised by.  A shape class keeps the constructors of a type
   down to depth 3 and abstracts what lies below; every type of the AST grammar falls into exactly one class, and the gate
   (Gate/Model.v) never accepts anything nested deeper than the classes distinguish.  Definitions only. *)
From Coq Require Import List Bool Arith.
Import ListNotations.
From DV Require Import Gate.Model.

Fixpoint depth (t : ty) : nat :=
  match t with
  | TRef t' | TBox t' | TOption _ t' => S (depth t')
  | TResult a b => S (Nat.max (depth a) (depth b))
  | TFunction ps r => S (fold_right (fun p acc => Nat.max (depth p) acc) (depth r) ps)
  | _ => 0
  end.

(* truncate below depth d *)
Fixpoint trunc (d : nat) (t : ty) : ty :=
  match d with
  | O => match t with
         | TRef _ | TBox _ | TOption _ _ | TResult _ _ | TFunction _ _ => TUnit     (* "something compound": never accepted here *)
         | leaf => leaf
         end
  | S d' => match t with
            | TRef t' => TRef (trunc d' t') | TBox t' => TBox (trunc d' t')
            | TOption s t' => TOption s (trunc d' t')
            | TResult a b => TResult (trunc d' a) (trunc d' b)
            | TFunction ps r => TFunction (map (trunc d') ps) (trunc d' r)
            | leaf => leaf
            end
  end.
Definition classify (t : ty) : ty := trunc 3 t.
