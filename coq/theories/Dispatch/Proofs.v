From Coq Require Import List Bool Arith Lia.
Import ListNotations.
From DV Require Import Gate.Model Gate.Spec Gate.Proofs Dispatch.Model.

(* accepted outputs are at most 2 constructors deep: Option<Box<Opaque>> *)
Lemma out_depth fl s r t : OutOk fl s r t -> depth t <= 2.
Proof.
  induction 1; cbn; try lia.
  destruct H as [H|[->| ->]]; [destruct H|..]; cbn; lia.
Qed.

Lemma trunc_id d t : depth t <= d -> trunc d t = t.
Proof.
  revert t. induction d as [|d IH]; intros t H.
  - destruct t; cbn in *; try reflexivity; lia.
  - destruct t; cbn [trunc]; try reflexivity; cbn [depth] in H.
    + f_equal. apply IH. lia.
    + f_equal. apply IH. lia.
    + f_equal. apply IH. lia.
    + f_equal; apply IH; lia.
    + assert (Hr : depth t <= d).
      { clear -H. induction params as [|p ps IHp]; cbn in H; lia. }
      f_equal; [|apply IH; exact Hr].
      clear Hr. induction params as [|p ps IHp]; [reflexivity|]. cbn [map]. f_equal.
      * apply IH. cbn in H. lia.
      * apply IHp. cbn in H. cbn. lia.
Qed.

(* every accepted output shape is its own class: the enumeration to depth 3 contains it literally *)
Theorem accepted_outputs_are_classes fl s r t : lot fl s r t = true -> classify t = t.
Proof. intros H. apply lot_iff in H. apply trunc_id. apply out_depth in H. lia. Qed.

(* accepted inputs other than callbacks are at most 2 deep as well *)
Lemma in_depth fl s t : InOk fl s t -> (forall ps r, t <> TFunction ps r) -> depth t <= 2.
Proof.
  induction 1; intros Hnf; cbn; try lia.
  - destruct H; cbn; lia.
  - destruct H; cbn; lia.
  - exfalso. eapply Hnf. reflexivity.
Qed.

Theorem accepted_inputs_are_classes fl s t :
  lt fl s t = true -> (forall ps r, t <> TFunction ps r) -> classify t = t.
Proof. intros H Hnf. apply lt_iff in H. apply trunc_id. pose proof (in_depth _ _ _ H Hnf). lia. Qed.

(* and so are accepted return types *)
Theorem accepted_returns_are_classes fl t : lret fl t = true -> classify t = t.
Proof.
  intros H. apply lret_iff in H. apply trunc_id.
  destruct H as [|ok err Ho He|d|d v Hp Ho|d v Hn Hu Ho|t Hr Hopt Hu Ho].
  - cbn. lia.
  - assert (depth ok <= 2) by (destruct Ho as [->|Ho]; [cbn; lia|eapply out_depth; eauto]).
    assert (depth err <= 2) by (destruct He as [->|He]; [cbn; lia|eapply out_depth; eauto]). cbn [depth]. lia.
  - cbn. lia.
  - apply out_depth in Ho. lia.
  - apply out_depth in Ho. cbn [depth]. lia.
  - apply out_depth in Ho. lia.
Qed.
