(* runtime/src/slices.rs: FFI views of slices.  Pointers are abstract: NULL, an offset into the
   allocation the test (or caller) owns, or some other non-null well-aligned address (what Rust
   uses for empty slices: NonNull::dangling / a promoted static). *)
From Coq Require Import List NArith Bool.
Import ListNotations.

Inductive ptr := PNull | PAt (off : N) | PDangling.
Definition ptr_eqb (a b : ptr) : bool :=
  match a, b with
  | PNull, PNull | PDangling, PDangling => true
  | PAt x, PAt y => N.eqb x y
  | _, _ => false
  end.
Definition is_null (p : ptr) : bool := match p with PNull => true | _ => false end.

(* a Rust slice value: where it points and how many elements; Rust requires p <> NULL *)
Record rslice := mkS { s_ptr : ptr; s_len : N }.
(* the #[repr(C)] view {ptr, len} *)
Record view := mkV { v_ptr : ptr; v_len : N }.

(* impl From<&[T]> for DiplomatSlice / From<&mut [T]> for DiplomatSliceMut / From<&str> *)
Definition to_view (s : rslice) : view := mkV (s_ptr s) (s_len s).
(* impl From<DiplomatSlice<T>> for &[T] (and Mut, Deref, DerefMut): NULL is normalised to the empty slice *)
Definition from_view (v : view) : rslice :=
  if is_null (v_ptr v) then mkS PDangling 0 else mkS (v_ptr v) (v_len v).

(* owned: From<Box<[T]>> for DiplomatOwnedSlice: Box::into_raw; From<DiplomatOwnedSlice> for Box<[T]> *)
Definition owned_to_view (b : rslice) : view := mkV (s_ptr b) (s_len b).
Definition owned_from_view (v : view) : rslice :=
  if is_null (v_ptr v) then mkS PDangling (v_len v) else mkS (v_ptr v) (v_len v).
(* Drop for DiplomatOwnedSlice: frees iff non-null; returns the freed (ptr,len) *)
Definition owned_drop (v : view) : option (ptr * N) :=
  if is_null (v_ptr v) then None else Some (v_ptr v, v_len v).

(* contents: memory is a function from element offsets of the caller's allocation *)
Definition contents {A} (mem : N -> A) (s : rslice) : list A :=
  match s_ptr s with
  | PAt off => map (fun i => mem (off + N.of_nat i)%N) (seq 0 (N.to_nat (s_len s)))
  | _ => []
  end.

Definition valid_ref (s : rslice) : Prop := s_ptr s <> PNull /\ (s_ptr s = PDangling -> s_len s = 0%N).

(* ---- correspondence ---- *)
Definition rslice_eqb (a b : rslice) := ptr_eqb (s_ptr a) (s_ptr b) && N.eqb (s_len a) (s_len b).
Definition view_eqb (a b : view) := ptr_eqb (v_ptr a) (v_ptr b) && N.eqb (v_len a) (v_len b).
Fixpoint listN_eqb (a b : list N) : bool :=
  match a, b with
  | [], [] => true
  | x :: a', y :: b' => N.eqb x y && listN_eqb a' b'
  | _, _ => false
  end.
(* borrowed / mutable / str scenario: the slice handed in, the view fields read through a
   #[repr(C)] mirror, the slice got back, and the elements read through it *)
Definition agree_borrow (elems : list N) (s : rslice) (ov : view) (oback : rslice) (oelems : list N) : bool :=
  view_eqb (to_view s) ov && rslice_eqb (from_view ov) oback &&
  listN_eqb (contents (fun i => nth (N.to_nat i) elems 0%N) (from_view ov)) oelems.
Definition agree_owned_slice (elems : list N) (s : rslice) (ov : view) (oback : rslice) (oelems : list N) : bool :=
  view_eqb (owned_to_view s) ov && rslice_eqb (owned_from_view ov) oback &&
  listN_eqb (contents (fun i => nth (N.to_nat i) elems 0%N) (owned_from_view ov)) oelems.
(* a view built by the foreign side (NULL+0 or pointer+len) converted by Rust *)
Definition agree_foreign (owned : bool) (elems : list N) (v : view) (oback : rslice) (oelems : list N) : bool :=
  let r := if owned then owned_from_view v else from_view v in
  rslice_eqb r oback && listN_eqb (contents (fun i => nth (N.to_nat i) elems 0%N) r) oelems.
