From Coq Require Import List NArith Bool Lia.
Import ListNotations.
From DV Require Import Slices.Model.

Lemma view_roundtrip s : s_ptr s <> PNull -> from_view (to_view s) = s.
Proof. destruct s as [[|o|] l]; cbn; intros H; try reflexivity. congruence. Qed.

Lemma view_roundtrip_contents {A} (mem : N -> A) s :
  s_ptr s <> PNull -> contents mem (from_view (to_view s)) = contents mem s /\
  to_view (from_view (to_view s)) = to_view s.
Proof. intros H. now rewrite view_roundtrip. Qed.

Lemma null_zero_is_empty {A} (mem : N -> A) n :
  from_view (mkV PNull n) = mkS PDangling 0 /\ contents mem (from_view (mkV PNull n)) = [] /\
  valid_ref (from_view (mkV PNull n)).
Proof. cbn. split; [reflexivity|]. split; [reflexivity|]. split; cbn; [discriminate|reflexivity]. Qed.

Lemma from_view_valid v :
  (v_ptr v = PDangling -> v_len v = 0%N) -> valid_ref (from_view v).
Proof.
  destruct v as [[|o|] l]; cbn; intros H; split; cbn; try discriminate; auto.
Qed.

Lemma owned_roundtrip b : s_ptr b <> PNull ->
  owned_from_view (owned_to_view b) = b /\ owned_drop (owned_to_view b) = Some (s_ptr b, s_len b).
Proof. destruct b as [[|o|] l]; cbn; intros H; try (split; reflexivity). congruence. Qed.

Lemma owned_null_empty {A} (mem : N -> A) :
  owned_from_view (mkV PNull 0) = mkS PDangling 0 /\ owned_drop (mkV PNull 0) = None /\
  contents mem (owned_from_view (mkV PNull 0)) = [].
Proof. cbn. repeat split. Qed.

Lemma contents_length {A} (mem : N -> A) off n : length (contents mem (mkS (PAt off) n)) = N.to_nat n.
Proof. unfold contents; cbn. now rewrite map_length, seq_length. Qed.

Example view_example :
  contents (fun i => (i * 10)%N) (from_view (to_view (mkS (PAt 2) 3))) = [20; 30; 40]%N.
Proof. reflexivity. Qed.
