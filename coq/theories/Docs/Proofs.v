From Coq Require Import List String Ascii Arith Bool Lia.
Import ListNotations.
From DV Require Import gen.Tables Docs.Model.
Open Scope string_scope.
Local Notation length := List.length (only parsing).

Lemma skipn_all_nil {A} (l : list A) : skipn (length l) l = [].
Proof. induction l as [|x l IH]; cbn; auto. Qed.

(* the unreachable!() arm for Mod is indeed unreachable, and nothing else can fail: URL generation is total *)
Lemma gen_url_total g l : l_path l <> [] -> exists u, gen_url g l = Some u.
Proof.
  intros Hne. unfold gen_url. destruct (l_path l) as [|c p] eqn:Hp; [congruence|].
  destruct (skipn (length (c :: p) - need (l_typ l)) (c :: p)) as [|item ms] eqn:Hs; [eauto|].
  destruct (page_prefix (l_typ l)) as [pre|] eqn:Hpre; [eauto|].
  exfalso. destruct (l_typ l); cbn in Hpre; try discriminate.
  cbn [need] in Hs. rewrite Nat.sub_0_r, skipn_all_nil in Hs. discriminate.
Qed.

Lemma normals_total g ls : (forall l, In l ls -> l_path l <> []) -> forall acc, exists s, normals g ls acc = Some s.
Proof.
  induction ls as [|l r IH]; intros H acc; cbn [normals]; [eauto|].
  assert (Hl : l_path l <> []) by (apply H; left; reflexivity).
  assert (Hr : forall x, In x r -> l_path x <> []) by (intros x Hx; apply H; right; exact Hx).
  destruct (l_disp l); try (apply IH; exact Hr).
  destruct (gen_url_total g l Hl) as [u Hu]. rewrite Hu.
  destruct (last_seg (l_path l)) as [nm|] eqn:Hn.
  - apply IH; exact Hr.
  - exfalso. clear -Hn Hl. induction (l_path l) as [|x p IHp]; [congruence|].
    cbn in Hn. destruct p; [discriminate|]. apply IHp; [discriminate|exact Hn].
Qed.

Lemma compacts_total g ls : (forall l, In l ls -> l_path l <> []) -> forall i acc, exists s, compacts g ls i acc = Some s.
Proof.
  induction ls as [|l r IH]; intros H i acc; cbn [compacts]; [eauto|].
  destruct (gen_url_total g l) as [u Hu]; [apply H; left; reflexivity|]. rewrite Hu.
  apply IH. intros x Hx; apply H; right; exact Hx.
Qed.

Lemma to_markdown_total g d : (forall l, In l (d_links d) -> l_path l <> []) -> exists s, to_markdown g d = Some s.
Proof.
  intros H. unfold to_markdown.
  destruct (normals_total g (d_links d) H (doc_text (d_lines d))) as [acc Ha]. rewrite Ha.
  destruct (filter is_compact (d_links d)) as [|c cs] eqn:Hf; [eauto|].
  apply compacts_total. intros l Hl. apply H.
  assert (Hin : In l (filter is_compact (d_links d))) by (rewrite Hf; exact Hl).
  apply filter_In in Hin. tauto.
Qed.

(* before the repair the same statement was false ... *)
Lemma unrepaired_refuted :
  exists g l, l_path l <> [] /\ gen_url_unrepaired g l = None.
Proof.
  exists (mkGen None []), (mkLink ["Foo"] DFnInStruct Normal). split; [discriminate|]. vm_compute. reflexivity.
Qed.

Lemma append_empty_r (s : string) : s ++ "" = s.
Proof. induction s as [|c s IH]; cbn; [reflexivity|rewrite IH; reflexivity]. Qed.

Lemma members_strict_sound t ms m : members_part_strict t ms = Some m -> members_part t ms = m.
Proof.
  unfold members_part_strict, members_part. destruct (anchor t) as [a|]; [|intros H; inversion H; reflexivity].
  destruct ms as [|x rest]; [discriminate|].
  destruct (is_evf t).
  - destruct rest as [|f rest']; [discriminate|]. intros H; inversion H; reflexivity.
  - intros H; inversion H. rewrite append_empty_r. reflexivity.
Qed.

(* ... and the repair changes nothing wherever the old generator produced a URL at all (whatever the per-kind tables are) *)
Lemma repair_is_conservative g l u : gen_url_unrepaired g l = Some u -> gen_url g l = Some u.
Proof.
  unfold gen_url_unrepaired, gen_url.
  destruct (l_path l) as [|c p] eqn:Hp; [discriminate|].
  destruct (Nat.ltb (length (c :: p)) (need (l_typ l))); [discriminate|].
  destruct (skipn (length (c :: p) - need (l_typ l)) (c :: p)) as [|item ms] eqn:Hs; [auto|].
  destruct (page_prefix (l_typ l)) as [pre|]; [|discriminate].
  destruct (members_part_strict (l_typ l) ms) as [m|] eqn:Hm; [|discriminate].
  apply members_strict_sound in Hm. rewrite Hm. auto.
Qed.

(* what the URL is, stated on the split path rather than on a computed depth: modules, then the item's page, then the
   member anchor *)
Lemma gen_url_shape g t disp c mods item ms pre :
  page_prefix t = Some pre -> length (item :: ms) = need t ->
  gen_url g (mkLink (c :: mods ++ item :: ms)%list t disp) =
    Some (root g c ++ dirs (c :: mods) ++ pre ++ item ++ ".html" ++ members_part t ms).
Proof.
  intros Hpre Hlen. unfold gen_url. cbn [l_path l_typ].
  assert (Hd : length (c :: mods ++ item :: ms) - need t = length (c :: mods)).
  { cbn [List.length] in *. rewrite app_length. cbn [List.length]. lia. }
  rewrite Hd.
  change (c :: mods ++ item :: ms)%list with ((c :: mods) ++ item :: ms)%list.
  rewrite firstn_app, firstn_all, Nat.sub_diag, app_nil_r.
  rewrite skipn_app, skipn_all, Nat.sub_diag. cbn [skipn app firstn].
  rewrite Hpre. reflexivity.
Qed.

Lemma gen_url_mod g disp c mods :
  gen_url g (mkLink (c :: mods) DMod disp) = Some (root g c ++ dirs (c :: mods) ++ "index.html").
Proof.
  unfold gen_url. cbn [l_path l_typ need]. rewrite Nat.sub_0_r, skipn_all_nil, firstn_all. reflexivity.
Qed.

Module Examples.
  (* the hypotheses of gen_url_shape are met by an ordinary link, and the result is what docs.rs serves *)
  Example shape_instance :
    gen_url (mkGen None []) (mkLink ["foo"; "bar"; "Baz"; "m"] DFnInStruct Normal)
    = Some "https://docs.rs/foo/latest/foo/bar/struct.Baz.html#method.m".
  Proof. vm_compute. reflexivity. Qed.
  Example short_instance :
    gen_url (mkGen (Some "https://x.y") []) (mkLink ["Foo"] DFnInStruct Normal) = Some "https://x.y/struct.Foo.html".
  Proof. vm_compute. reflexivity. Qed.
  Example markdown_instance :
    to_markdown (mkGen None [("foo", "https://u/")])
      (mkDocs [" A. "; ""; "B"] [mkLink ["foo"; "T"] DStruct Normal; mkLink ["foo"; "T"; "f"] DFnInStruct Compact; mkLink ["foo"] DMod Compact])
    = Some ("A." ++ nl ++ nl ++ "B" ++ nl ++ nl ++ "See the [Rust documentation for `T`](https://u/foo/struct.T.html) for more information."
            ++ nl ++ nl ++ "Additional information: [1](https://u/foo/struct.T.html#method.f), [2](https://u/foo/index.html)").
  Proof. vm_compute. reflexivity. Qed.
End Examples.
