(* Model of the documentation renderer shared by every backend: core/src/ast/docs.rs
   (Docs::get_doc_lines, Docs::to_markdown, DocsUrlGenerator::gen_for_rust_link).
   Strings are byte strings (Rust's UTF-8 bytes).  A result of None stands for a panic of the implementation
   (index out of range, unwrap on None, arithmetic overflow, unreachable!).
   Regenerated from the source on every run (gen/Tables.v): the DocType variants and the three per-kind tables.
   Modelled, not verified: the control skeleton of gen_for_rust_link (tablegen checks its landmarks), HashMap lookup as first-match association (the generator uses distinct keys);
   str::trim as stripping the ASCII white space characters only. *)
From Coq Require Import List String Ascii Arith Bool DecimalString.
Import ListNotations.
From DV Require Import gen.Tables.
Open Scope string_scope.
Local Notation length := List.length (only parsing).

Inductive display := Normal | Compact | Hidden.

Record link := mkLink { l_path : list string; l_typ : doc_type; l_disp : display }.
Record urlgen := mkGen { g_default : option string; g_bases : list (string * string) }.
Record docs := mkDocs { d_lines : list string; d_links : list link }.

(* the per-kind tables are regenerated from gen_for_rust_link's match arms on every run (gen/Tables.v, Tie A): how many
   trailing path segments name the item (and its member, and the member's field); the page prefix (None: the
   unreachable!() arm); the member anchor (None: the link ends at the item's page) *)
Definition need : doc_type -> nat := doc_need.
Definition page_prefix : doc_type -> option string := doc_page_prefix.
Definition anchor : doc_type -> option string := doc_anchor.

Definition is_evf (t : doc_type) : bool := match t with DEnumVariantField => true | _ => false end.

Fixpoint assoc (k : string) (l : list (string * string)) : option string :=
  match l with
  | [] => None
  | (k', v) :: r => if String.eqb k k' then Some v else assoc k r
  end.

Fixpoint ends_slash (s : string) : bool :=
  match s with
  | EmptyString => false
  | String c EmptyString => Ascii.eqb c "/"%char
  | String _ r => ends_slash r
  end.

Definition base_of (g : urlgen) (c : string) : string :=
  match assoc c (g_bases g) with
  | Some u => u
  | None => match g_default g with Some u => u | None => "https://docs.rs/" end
  end.

Definition root (g : urlgen) (c : string) : string :=
  let b := base_of g c in
  let r := if ends_slash b then b else b ++ "/" in
  if String.eqb r "https://docs.rs/" then r ++ c ++ "/latest/" else r.

Definition dirs (ms : list string) : string := String.concat "" (map (fun m => m ++ "/") ms).

(* the '#anchor.member[.field.f]' suffix: appended only as far as the path has segments for it *)
Definition members_part (t : doc_type) (ms : list string) : string :=
  match anchor t, ms with
  | Some a, m :: rest =>
      a ++ m ++ (if is_evf t then match rest with f :: _ => ".field." ++ f | [] => "" end else "")
  | _, _ => ""
  end.

Definition gen_url (g : urlgen) (l : link) : option string :=
  match l_path l with
  | [] => None                                            (* elements[0] *)
  | c :: _ =>
      let depth := length (l_path l) - need (l_typ l) in  (* saturating_sub *)
      let mods := firstn depth (l_path l) in
      match skipn depth (l_path l) with
      | [] => Some (root g c ++ dirs mods ++ "index.html")
      | item :: ms =>
          match page_prefix (l_typ l) with
          | None => None
          | Some p => Some (root g c ++ dirs mods ++ p ++ item ++ ".html" ++ members_part (l_typ l) ms)
          end
      end
  end.

(* the generator as it was before fix 06b6163: plain subtraction and unwrap on every member segment *)
Definition members_part_strict (t : doc_type) (ms : list string) : option string :=
  match anchor t with
  | None => Some ""
  | Some a =>
      match ms with
      | [] => None
      | m :: rest =>
          if is_evf t then match rest with f :: _ => Some (a ++ m ++ ".field." ++ f) | [] => None end
          else Some (a ++ m)
      end
  end.

Definition gen_url_unrepaired (g : urlgen) (l : link) : option string :=
  match l_path l with
  | [] => None
  | c :: _ =>
      if Nat.ltb (length (l_path l)) (need (l_typ l)) then None else
      let depth := length (l_path l) - need (l_typ l) in
      let mods := firstn depth (l_path l) in
      match skipn depth (l_path l) with
      | [] => Some (root g c ++ dirs mods ++ "index.html")
      | item :: ms =>
          match page_prefix (l_typ l), members_part_strict (l_typ l) ms with
          | Some p, Some m => Some (root g c ++ dirs mods ++ p ++ item ++ ".html" ++ m)
          | _, _ => None
          end
      end
  end.

(* ---- doc text ---- *)
Definition is_ws (c : ascii) : bool :=
  match nat_of_ascii c with 9 | 10 | 11 | 12 | 13 | 32 => true | _ => false end.

Fixpoint ltrim (l : list ascii) : list ascii :=
  match l with c :: r => if is_ws c then ltrim r else l | [] => [] end.

Definition trim (s : string) : string :=
  string_of_list_ascii (rev (ltrim (rev (ltrim (list_ascii_of_string s))))).

Definition is_empty (s : string) : bool := match s with EmptyString => true | _ => false end.

Definition nl : string := String (ascii_of_nat 10) EmptyString.

(* get_doc_lines: trimmed lines joined by '\n', where the separator is only written once something has been written *)
Definition doc_text (ls : list string) : string :=
  fold_left (fun acc l => (if is_empty acc then acc else acc ++ nl) ++ trim l) ls "".

Fixpoint last_seg (p : list string) : option string :=
  match p with [] => None | [x] => Some x | _ :: r => last_seg r end.

Definition para (acc : string) : string := if is_empty acc then acc else acc ++ nl ++ nl.

Fixpoint normals (g : urlgen) (ls : list link) (acc : string) : option string :=
  match ls with
  | [] => Some acc
  | l :: r =>
      match l_disp l with
      | Normal =>
          match last_seg (l_path l), gen_url g l with
          | Some name, Some u =>
              normals g r (para acc ++ "See the [Rust documentation for `" ++ name ++ "`](" ++ u ++ ") for more information.")
          | _, _ => None
          end
      | _ => normals g r acc
      end
  end.

Definition is_compact (l : link) : bool := match l_disp l with Compact => true | _ => false end.

Definition dec (n : nat) : string := NilEmpty.string_of_uint (Nat.to_uint n).

Fixpoint compacts (g : urlgen) (ls : list link) (i : nat) (acc : string) : option string :=
  match ls with
  | [] => Some acc
  | l :: r =>
      match gen_url g l with
      | Some u => compacts g r (S i) (acc ++ (if Nat.eqb i 0 then "" else ", ") ++ "[" ++ dec (S i) ++ "](" ++ u ++ ")")
      | None => None
      end
  end.

Definition to_markdown (g : urlgen) (d : docs) : option string :=
  match normals g (d_links d) (doc_text (d_lines d)) with
  | None => None
  | Some acc =>
      match filter is_compact (d_links d) with
      | [] => Some acc
      | cs => compacts g cs 0 (para acc ++ "Additional information: ")
      end
  end.

(* ---- correspondence helpers ---- *)
Definition str_of_codes (l : list nat) : string := string_of_list_ascii (map ascii_of_nat l).

Definition agree_md (g : urlgen) (d : docs) (observed : option string) : bool :=
  match to_markdown g d, observed with
  | Some a, Some b => String.eqb a b
  | None, None => true
  | _, _ => false
  end.
