(* C08 — the receive buffer of a fallible / optional struct return.  Definitions and proofs.

   Modelled code:
     runtime/src/result.rs        #[repr(C)] DiplomatResult<T, E> { value: union { ok: T, err: E }, is_ok: bool }
     tool/src/js/converter.rs     gen_c_to_js_for_return_type, arm Fallible / Nullable: `new DiplomatReceiveBuf(wasm, size, align, true)`
     tool/templates/js/runtime.mjs DiplomatReceiveBuf.resultFlag: the byte at offset size - 1
   A payload is given by its (size, alignment); unit is (0, 1); Option<T> is DiplomatResult<T, ()>. *)
From Coq Require Import List NArith Bool Lia.
Import ListNotations.
Local Open Scope N_scope.
From DV Require Import Layout.Model Layout.Proofs.

Definition sa := (N * N)%type.
Definition unit_sa : sa := (0, 1).

(* repr(C): a union is as large as its largest member rounded up to its alignment, the flag follows it *)
Definition res_align (t e : sa) : N := N.max (snd t) (snd e).
Definition res_union (t e : sa) : N := round_up (N.max (fst t) (fst e)) (res_align t e).
Definition res_flag_off (t e : sa) : N := res_union t e.
Definition res_size (t e : sa) : N := round_up (res_union t e + 1) (res_align t e).

(* the generated JS: buffer (size, align); the flag is read at size - 1 *)
Definition js_recv (t e : sa) : N * N := (res_union t e + 1, res_align t e).
Definition js_flag_off (r : N * N) : N := fst r - 1.
(* ... as it stood before the repair: the largest payload size + 1, aligned like the success type *)
Definition js_recv_unrepaired (t e : sa) : N * N := (N.max (fst t) (fst e) + 1, snd t).

Definition sa_good (t : sa) : Prop := pow2_8 (snd t) /\ fst t mod snd t = 0.

Lemma pow2_8_pos a : pow2_8 a -> 0 < a.
Proof. unfold pow2_8. intros [H|[H|[H|H]]]; subst; lia. Qed.

Lemma res_align_pow2 t e : sa_good t -> sa_good e -> pow2_8 (res_align t e).
Proof. intros [A _] [B _]. apply max_pow2; auto. Qed.

(* the flag lies behind both payloads, at a multiple of the alignment, inside the buffer JS allocates, and JS reads it
   where repr(C) puts it *)
Theorem js_recv_is_reprC t e : sa_good t -> sa_good e ->
  fst t <= res_flag_off t e /\ fst e <= res_flag_off t e /\
  res_flag_off t e mod res_align t e = 0 /\
  js_flag_off (js_recv t e) = res_flag_off t e /\
  res_flag_off t e < fst (js_recv t e) /\ fst (js_recv t e) <= res_size t e /\
  snd (js_recv t e) = res_align t e.
Proof.
  intros Gt Ge. pose proof (pow2_8_pos _ (res_align_pow2 t e Gt Ge)) as P.
  unfold res_flag_off, res_union, js_recv, js_flag_off, res_size. cbn [fst snd].
  pose proof (round_up_ge (N.max (fst t) (fst e)) (res_align t e) P) as G1.
  pose proof (round_up_ge (round_up (N.max (fst t) (fst e)) (res_align t e) + 1) (res_align t e) P) as G2.
  pose proof (round_up_mod (N.max (fst t) (fst e)) (res_align t e) P) as G3.
  set (u := round_up (N.max (fst t) (fst e)) (res_align t e)) in *.
  assert (Hm : fst t <= N.max (fst t) (fst e) /\ fst e <= N.max (fst t) (fst e)) by lia.
  unfold res_union. fold u. repeat split; auto; lia.
Qed.

(* the unrepaired buffer is the repaired one exactly when the largest payload already ends on the common alignment and
   the error type is not more strictly aligned than the success type: the repair changes nothing else *)
Theorem repair_is_conservative t e :
  0 < res_align t e -> N.max (fst t) (fst e) mod res_align t e = 0 -> snd e <= snd t ->
  js_recv_unrepaired t e = js_recv t e.
Proof.
  intros P M A. unfold js_recv_unrepaired, js_recv, res_union. rewrite round_up_id by auto.
  f_equal. unfold res_align. lia.
Qed.

(* ... and it was needed: Result<{u8;5}, {u32}> — the union is 8 bytes, the flag sits at offset 8; the unrepaired
   buffer was 6 bytes aligned to 1 and read the flag at offset 5 *)
Theorem unrepaired_refuted : exists t e, sa_good t /\ sa_good e /\
  js_flag_off (js_recv_unrepaired t e) <> res_flag_off t e /\
  fst (js_recv_unrepaired t e) <= res_flag_off t e /\ snd (js_recv_unrepaired t e) <> res_align t e.
Proof.
  exists (5, 1), (4, 4). unfold sa_good, pow2_8. cbn [fst snd].
  repeat split; auto; vm_compute; try discriminate; auto.
Qed.

(* correspondence goals: the buffer a generated method allocated for Result<t, e> / Option<t> *)
Definition sa_of (t : fty) : sa := (tsize t, talign t).
Definition agree_recv (t e : sa) (size align : N) : bool :=
  (fst (js_recv t e) =? size) && (snd (js_recv t e) =? align).

(* ---------- writeOptionToArrayBuffer before its repair ---------- *)
(* nothing at all was written for an absent value, so is_ok kept what the (not zeroed) buffer held before;
   Model.write_val is the repaired function (it stores 0), and C08_read_after_write holds for it whatever the memory
   contained *)
Definition write_none_unrepaired (m : list N) : list N := m.
Theorem none_unrepaired_refuted :
  exists m, length m = 2%nat /\ read_val (FOpt (FPrim 1)) (write_none_unrepaired m) 0 <> VNone /\
            read_val (FOpt (FPrim 1)) (write_val (FOpt (FPrim 1)) VNone m 0) 0 = VNone.
Proof. exists [170; 170]. repeat split; vm_compute; congruence. Qed.
