From Coq Require Import List NArith Bool Lia ZArith ZifyN ZifyBool.
Import ListNotations.
From DV Require Import Base.Lists Layout.Model.
Local Open Scope N_scope.

(* ---- arithmetic ---- *)
Lemma pad_is_round_up x a : 0 < a -> x + (a - x mod a) mod a = round_up x a.
Proof.
  intros Ha. unfold round_up.
  pose proof (N.div_mod x a ltac:(lia)) as Hx. pose proof (N.mod_lt x a ltac:(lia)) as Hr.
  destruct (N.eq_dec (x mod a) 0) as [E|E].
  - rewrite E, N.sub_0_r, N.mod_same by lia. rewrite N.add_0_r.
    assert (Hq : (x + a - 1) / a = x / a).
    { symmetry. apply (N.div_unique (x + a - 1) a (x / a) (a - 1)); lia. }
    rewrite Hq. lia.
  - rewrite (N.mod_small (a - x mod a) a) by lia.
    assert (Hq : (x + a - 1) / a = x / a + 1).
    { symmetry. apply (N.div_unique (x + a - 1) a (x / a + 1) (x mod a - 1)); lia. }
    rewrite Hq. lia.
Qed.

Lemma round_up_ge x a : 0 < a -> x <= round_up x a.
Proof. intros Ha. rewrite <- pad_is_round_up by exact Ha. lia. Qed.

Lemma round_up_mod x a : 0 < a -> round_up x a mod a = 0.
Proof. intros Ha. unfold round_up. apply N.mod_mul. lia. Qed.

Lemma round_up_id x a : 0 < a -> x mod a = 0 -> round_up x a = x.
Proof.
  intros Ha Hx. rewrite <- pad_is_round_up by exact Ha. rewrite Hx, N.sub_0_r, N.mod_same by lia. lia.
Qed.

(* ---- induction over field types (lists of fields nested in the type) ---- *)
Section FtyInd.
  Variable P : fty -> Prop.
  Hypothesis HP : forall s, P (FPrim s).
  Hypothesis HE : P FEnum. Hypothesis HO : P FOpaque. Hypothesis HS : P FSlice.
  Hypothesis HR : forall fs, Forall P fs -> P (FStruct fs).
  Hypothesis HOp : forall p, P p -> P (FOpt p).
  Fixpoint fty_ind' (t : fty) : P t :=
    match t with
    | FPrim s => HP s | FEnum => HE | FOpaque => HO | FSlice => HS
    | FStruct fs => HR fs ((fix go (l : list fty) : Forall P l :=
                              match l with [] => Forall_nil P | x :: r => Forall_cons x (fty_ind' x) (go r) end) fs)
    | FOpt p => HOp p (fty_ind' p)
    end.
End FtyInd.

(* alignments are 1, 2, 4 or 8; sizes are multiples of the alignment *)
Definition pow2_8 (a : N) : Prop := a = 1 \/ a = 2 \/ a = 4 \/ a = 8.
Definition good (t : fty) : Prop := pow2_8 (talign t) /\ tsize t mod talign t = 0.

Lemma set_last_padding_offs fs c w : map f_off (set_last_padding fs c w) = map f_off fs.
Proof.
  unfold set_last_padding. destruct (rev fs) as [|f r] eqn:E.
  - apply (f_equal (@rev _)) in E. rewrite rev_involutive in E. subst. reflexivity.
  - apply (f_equal (@rev _)) in E. rewrite rev_involutive in E. subst fs. cbn [rev].
    rewrite !map_app. cbn. reflexivity.
Qed.

Lemma set_last_padding_length fs c w : length (set_last_padding fs c w) = length fs.
Proof.
  unfold set_last_padding. destruct (rev fs) as [|f r] eqn:E.
  - apply (f_equal (@rev _)) in E. rewrite rev_involutive in E. subst. reflexivity.
  - apply (f_equal (@length _)) in E. rewrite rev_length in E. cbn [rev]. rewrite app_length, rev_length. cbn in *. lia.
Qed.

(* the loop of struct_field_info, as a function of the remaining fields *)
Definition loop (fs : list fty) (st : lstate) : lstate :=
  fold_left (fun st f => let '(sz, al, sc) := tsa f in field_step st sz al sc) fs st.

Lemma loop_cons f fs st : loop (f :: fs) st = loop fs (field_step st (tsize f) (talign f) (snd (tsa f))).
Proof. unfold loop, tsize, talign. cbn [fold_left]. destruct (tsa f) as [[sz al] sc]. reflexivity. Qed.

Lemma max_pow2 a b : pow2_8 a -> pow2_8 b -> pow2_8 (N.max a b).
Proof. unfold pow2_8. intros [->|[->|[->| ->]]] [->|[->|[->| ->]]]; cbn; tauto. Qed.

Lemma field_step_next st sz al sc : 0 < al -> l_next (field_step st sz al sc) = round_up (l_next st) al + sz.
Proof. intros Ha. unfold field_step. cbn [l_next]. now rewrite pad_is_round_up. Qed.
Lemma field_step_max st sz al sc : l_maxalign (field_step st sz al sc) = N.max (l_maxalign st) al.
Proof. reflexivity. Qed.
Lemma field_step_offs st sz al sc : 0 < al ->
  map f_off (l_fields (field_step st sz al sc)) = map f_off (l_fields st) ++ [round_up (l_next st) al].
Proof.
  intros Ha. unfold field_step. cbn [l_fields]. rewrite map_app. cbn [map f_off]. rewrite pad_is_round_up by exact Ha.
  destruct ((al - l_next st mod al) mod al =? 0); [reflexivity|now rewrite set_last_padding_offs].
Qed.

(* invariant of the loop wrt. the specification *)
Lemma loop_spec fs : forall st,
  Forall good fs ->
  let st' := loop fs st in
  l_next st' = spec_end (l_next st) fs /\
  map f_off (l_fields st') = map f_off (l_fields st) ++ spec_offsets (l_next st) fs /\
  l_maxalign st' = fold_left (fun a f => N.max a (talign f)) fs (l_maxalign st).
Proof.
  induction fs as [|f fs IH]; intros st Hg.
  - cbn. rewrite app_nil_r. auto.
  - inversion Hg as [|? ? [Hp Hm] Hg']; subst. rewrite loop_cons.
    assert (Ha : 0 < talign f) by (destruct Hp as [->|[->|[->| ->]]]; lia).
    specialize (IH (field_step st (tsize f) (talign f) (snd (tsa f))) Hg').
    cbv zeta in IH. destruct IH as (I1 & I2 & I3).
    rewrite field_step_next in I1, I2 by exact Ha. rewrite field_step_offs in I2 by exact Ha. rewrite field_step_max in I3.
    cbn [spec_end spec_offsets fold_left]. split; [exact I1|]. split; [|exact I3].
    rewrite I2, <- app_assoc. reflexivity.
Qed.

Lemma fold_max_init fs : forall a, fold_left (fun a f => N.max a (talign f)) fs a = N.max a (fold_left (fun a f => N.max a (talign f)) fs 0).
Proof.
  induction fs as [|f fs IH]; intros a; cbn [fold_left]; [lia|]. rewrite IH, (IH (N.max 0 (talign f))). lia.
Qed.

Lemma fold_max_pow2 fs : Forall good fs -> fs <> [] -> pow2_8 (fold_left (fun a f => N.max a (talign f)) fs 0).
Proof.
  intros Hg Hne. destruct fs as [|f fs]; [congruence|]. inversion Hg as [|? ? [Hp _] Hg']; subst. cbn [fold_left].
  rewrite N.max_0_l. clear Hne Hg. revert Hp. generalize (talign f) as a. induction Hg' as [|g gs [Hpg _] _ IH]; intros a Ha; cbn [fold_left]; [exact Ha|].
  apply IH. now apply max_pow2.
Qed.

(* every well-formed type has a power-of-two alignment (<= 8) dividing its size *)
Lemma wf_good t : wf t = true -> good t.
Proof.
  induction t as [s| | | |fs IH|p IH] using fty_ind'; intros Hw.
  - cbn in Hw. unfold good, talign, tsize, pow2_8; cbn.
    repeat (apply orb_true_iff in Hw; destruct Hw as [Hw|Hw]); apply N.eqb_eq in Hw; subst; cbn; auto.
  - unfold good, pow2_8; cbn. auto.
  - unfold good, pow2_8; cbn. auto.
  - unfold good, pow2_8; cbn. auto.
  - cbn [wf] in Hw. assert (Hg : Forall good fs).
    { rewrite Forall_forall in *. intros x Hx. apply IH; [exact Hx|]. eapply forallb_forall; eassumption. }
    destruct fs as [|f fs']; [unfold good, pow2_8; cbn; auto|].
    pose proof (loop_spec (f :: fs') (mkL 0 0 1 [] Zst) Hg) as (L1 & L2 & L3). cbv zeta in L1, L2, L3.
    assert (Hp : pow2_8 (l_maxalign (loop (f :: fs') (mkL 0 0 1 [] Zst)))).
    { rewrite L3. cbn [l_maxalign]. apply fold_max_pow2; [exact Hg|discriminate]. }
    unfold good, talign, tsize. cbn [tsa]. fold (loop (f :: fs') (mkL 0 0 1 [] Zst)).
    set (st := loop (f :: fs') (mkL 0 0 1 [] Zst)) in *. cbn [fst snd]. split; [exact Hp|].
    assert (Ha : 0 < l_maxalign st) by (destruct Hp as [->|[->|[->| ->]]]; lia).
    rewrite pad_is_round_up by exact Ha. now apply round_up_mod.
  - cbn [wf] in Hw. apply andb_true_iff in Hw. destruct Hw as [Hw _]. specialize (IH Hw). destruct IH as [Hp Hm].
    unfold good, talign, tsize in *. cbn [tsa]. destruct (tsa p) as [[sz al] sc]. cbn [fst snd] in *. split; [exact Hp|].
    assert (Ha : 0 < al) by (destruct Hp as [->|[->|[->| ->]]]; lia).
    rewrite N.add_mod, Hm, N.mod_same, N.add_0_l by lia. apply N.mod_0_l. lia.
Qed.

(* THEOREM: the offsets, size and alignment the JS backend computes are the repr(C) ones *)
Theorem offsets_are_reprC fs :
  forallb wf fs = true -> fs <> [] ->
  let '(infos, size, align, _) := struct_info fs in
  map f_off infos = spec_offsets 0 fs /\ size = spec_size fs /\ align = spec_align fs.
Proof.
  intros Hw Hne. assert (Hg : Forall good fs).
  { apply Forall_forall. intros x Hx. apply wf_good. eapply forallb_forall; eassumption. }
  unfold struct_info. destruct fs as [|f fs']; [congruence|].
  fold (loop (f :: fs') (mkL 0 0 1 [] Zst)). set (st := loop (f :: fs') (mkL 0 0 1 [] Zst)).
  pose proof (loop_spec (f :: fs') (mkL 0 0 1 [] Zst) Hg) as (L1 & L2 & L3). cbv zeta in L1, L2, L3. fold st in L1, L2, L3.
  cbn [l_next l_fields l_maxalign map app] in L1, L2, L3.
  assert (Hp : pow2_8 (l_maxalign st)) by (rewrite L3; apply fold_max_pow2; [exact Hg|discriminate]).
  assert (Ha : 0 < l_maxalign st) by (destruct Hp as [->|[->|[->| ->]]]; lia).
  split; [|split].
  - destruct (l_next st mod l_maxalign st =? 0); [exact L2|now rewrite set_last_padding_offs].
  - rewrite pad_is_round_up by exact Ha. unfold spec_size, spec_align. now rewrite L1, L3.
  - exact L3.
Qed.

(* ---- typed padding ---- *)
Definition padbytes (i : finfo) : N := f_padcount i * f_padwidth i.

(* every field is followed by exactly its typed padding: up to the next field, the last one up to [endp];
   a field that carries padding has it typed by its own alignment *)
Fixpoint pads_ok (fs : list fty) (infos : list finfo) (endp : N) : Prop :=
  match fs, infos with
  | [], [] => True
  | f :: fs', i :: infos' =>
      (f_padcount i = 0 \/ f_padwidth i = talign f) /\
      match fs', infos' with
      | [], [] => f_off i + tsize f + padbytes i = endp
      | _ :: _, j :: _ => f_off i + tsize f + padbytes i = f_off j /\ pads_ok fs' infos' endp
      | _, _ => False
      end
  | _, _ => False
  end.

Lemma div_mul_exact p w : 0 < w -> p mod w = 0 -> p / w * w = p.
Proof. intros Hw Hm. pose proof (N.div_mod p w ltac:(lia)). lia. Qed.

(* the run-time assertion `padding % prev_align == 0` of layout.rs can never fire *)
Lemma padding_divisible prev al next :
  pow2_8 prev -> pow2_8 al -> next mod prev = 0 -> ((al - next mod al) mod al) mod prev = 0.
Proof.
  intros [->|[->|[->| ->]]] [->|[->|[->| ->]]] H; lia.
Qed.

Lemma set_last_padding_cons i l c w : l <> [] -> set_last_padding (i :: l) c w = i :: set_last_padding l c w.
Proof.
  intros Hne. unfold set_last_padding. cbn [rev]. destruct (rev l) as [|x r] eqn:E.
  - apply (f_equal (@rev _)) in E. rewrite rev_involutive in E. cbn in E. congruence.
  - cbn [app rev]. rewrite rev_app_distr. cbn [rev app]. reflexivity.
Qed.

(* replacing the (zero) padding of the last field *)
Lemma pads_ok_close fs : forall infos e c w,
  pads_ok fs infos e -> fs <> [] ->
  (c = 0 \/ w = talign (last fs (FPrim 1))) ->
  padbytes (last infos (mkF 0 0 1 Zst)) = 0 ->
  pads_ok fs (set_last_padding infos c w) (e + c * w).
Proof.
  induction fs as [|f fs IH]; intros infos e c w H Hne Hw H0; [congruence|].
  destruct infos as [|i infos]; [cbn in H; contradiction|]. cbn [pads_ok] in H. destruct H as [Hi H].
  destruct fs as [|g fs'].
  - destruct infos as [|j infos']; [|cbn in H; contradiction]. cbn [last] in Hw, H0.
    unfold set_last_padding. cbn [rev app]. cbn [pads_ok]. unfold padbytes in *. cbn [f_padcount f_padwidth f_off].
    split; [exact Hw|]. lia.
  - destruct infos as [|j infos']; [cbn in H; contradiction|]. destruct H as [Hoff H].
    assert (Hs : set_last_padding (i :: j :: infos') c w = i :: set_last_padding (j :: infos') c w)
      by (apply set_last_padding_cons; discriminate).
    rewrite Hs.
    assert (Hj : exists j' r', set_last_padding (j :: infos') c w = j' :: r' /\ f_off j' = f_off j).
    { pose proof (set_last_padding_offs (j :: infos') c w) as Ho.
      destruct (set_last_padding (j :: infos') c w) as [|j' r'] eqn:E; [discriminate|]. exists j', r'. split; [reflexivity|]. now inversion Ho. }
    destruct Hj as (j' & r' & Ej & Eo).
    specialize (IH (j :: infos') e c w H ltac:(discriminate) Hw H0).
    rewrite Ej in IH |- *. cbn [pads_ok]. split; [exact Hi|]. split; [now rewrite Eo|exact IH].
Qed.

Lemma pads_ok_snoc fs : forall infos e g inew,
  pads_ok fs infos e ->
  f_off inew = e -> f_padcount inew = 0 ->
  pads_ok (fs ++ [g]) (infos ++ [inew]) (e + tsize g).
Proof.
  induction fs as [|f fs IH]; intros infos e g inew H Ho Hp.
  - destruct infos; [|cbn in H; contradiction]. cbn. unfold padbytes. rewrite Hp. split; [now left|lia].
  - destruct infos as [|i infos]; [cbn in H; contradiction|]. cbn [pads_ok app] in *. destruct H as [Hi H].
    destruct fs as [|f2 fs'].
    + destruct infos as [|j infos']; [|cbn in H; contradiction]. cbn [app pads_ok]. split; [exact Hi|].
      split; [lia|]. unfold padbytes. rewrite Hp. split; [now left|lia].
    + destruct infos as [|j infos']; [cbn in H; contradiction|]. destruct H as [Hoff H]. cbn [app].
      split; [exact Hi|]. split; [exact Hoff|]. apply (IH (j :: infos') e g inew H Ho Hp).
Qed.

Definition dflt_f : fty := FPrim 1.
Definition dflt_i : finfo := mkF 0 0 1 Zst.

Record PInv (p : list fty) (st : lstate) : Prop := {
  pi_ok : pads_ok p (l_fields st) (l_next st);
  pi_prev : p <> [] -> l_prevalign st = talign (last p dflt_f);
  pi_pow : pow2_8 (l_prevalign st);
  pi_mod : l_next st mod l_prevalign st = 0;
  pi_last : padbytes (last (l_fields st) dflt_i) = 0;
  pi_empty : p = [] -> l_fields st = [] /\ l_next st = 0
}.

Lemma last_snoc {A} (l : list A) x d : last (l ++ [x]) d = x.
Proof. induction l as [|a l IH]; [reflexivity|]. cbn [app]. destruct (l ++ [x]) eqn:E; [destruct l; discriminate|]. cbn [last]. exact IH. Qed.

Lemma pinv_step p st g : PInv p st -> good g ->
  PInv (p ++ [g]) (field_step st (tsize g) (talign g) (snd (tsa g))).
Proof.
  intros [Hok Hprev Hpow Hmod Hlast Hemp] [Hp Hm].
  assert (Ha : 0 < talign g) by (destruct Hp as [->|[->|[->| ->]]]; lia).
  set (al := talign g) in *. set (padding := (al - l_next st mod al) mod al).
  assert (Hoff : l_next st + padding = round_up (l_next st) al) by (apply pad_is_round_up; exact Ha).
  unfold field_step. fold padding. constructor; cbn [l_fields l_next l_prevalign].
  - (* pads_ok *)
    destruct p as [|f0 p0].
    + destruct (Hemp eq_refl) as [HL Hn].
      assert (Hp0 : padding = 0) by (unfold padding; rewrite Hn, N.mod_0_l, N.sub_0_r, N.mod_same by lia; reflexivity).
      rewrite HL, Hp0, Hn. cbn [N.eqb app]. cbn. unfold padbytes; cbn. split; [now left|lia].
    + destruct (N.eqb_spec padding 0) as [E|E].
      * rewrite E, N.add_0_r. apply pads_ok_snoc; [exact Hok|reflexivity|reflexivity].
      * assert (Hdiv : padding mod l_prevalign st = 0) by (apply padding_divisible; assumption).
        assert (Hw : 0 < l_prevalign st) by (destruct Hpow as [->|[->|[->| ->]]]; lia).
        pose proof (div_mul_exact padding (l_prevalign st) Hw Hdiv) as Hcw.
        replace (l_next st + padding) with (l_next st + padding / l_prevalign st * l_prevalign st) by lia.
        apply pads_ok_snoc; [|reflexivity|reflexivity].
        apply pads_ok_close; [exact Hok|discriminate| |exact Hlast].
        right. apply Hprev. discriminate.
  - intros _. rewrite last_snoc. reflexivity.
  - exact Hp.
  - assert (H1 : round_up (l_next st) al mod al = 0) by (apply round_up_mod; exact Ha).
    rewrite Hoff, N.add_mod by lia. rewrite H1, Hm. cbn [N.add]. apply N.mod_0_l. lia.
  - rewrite last_snoc. reflexivity.
  - intros E. destruct p; discriminate.
Qed.

Lemma pinv_loop fs : forall p st, PInv p st -> Forall good fs -> PInv (p ++ fs) (loop fs st).
Proof.
  induction fs as [|g fs IH]; intros p st HI Hg.
  - rewrite app_nil_r. exact HI.
  - inversion Hg; subst. rewrite loop_cons. replace (p ++ g :: fs) with ((p ++ [g]) ++ fs) by (now rewrite <- app_assoc).
    apply IH; [apply pinv_step; assumption|assumption].
Qed.

Lemma pinv_init : PInv [] (mkL 0 0 1 [] Zst).
Proof. constructor; cbn; auto; try (left; reflexivity); try congruence. Qed.

(* THEOREM: the typed padding recorded for each field is exactly the gap to the next field (or to the end of the
   struct), in units of the field's own alignment — and the divisibility assertion of layout.rs never fires *)
Theorem padding_typed_exact fs :
  forallb wf fs = true -> fs <> [] ->
  let '(infos, size, _, _) := struct_info fs in pads_ok fs infos size.
Proof.
  intros Hw Hne. assert (Hg : Forall good fs).
  { apply Forall_forall. intros x Hx. apply wf_good. eapply forallb_forall; eassumption. }
  pose proof (pinv_loop fs [] (mkL 0 0 1 [] Zst) pinv_init Hg) as HI. cbn [app] in HI.
  unfold struct_info. destruct fs as [|f fs']; [congruence|].
  fold (loop (f :: fs') (mkL 0 0 1 [] Zst)). set (st := loop (f :: fs') (mkL 0 0 1 [] Zst)) in *.
  destruct HI as [Hok Hprev Hpow Hmod Hlast _].
  pose proof (loop_spec (f :: fs') (mkL 0 0 1 [] Zst) Hg) as (_ & _ & L3). cbv zeta in L3. fold st in L3. cbn [l_maxalign] in L3.
  assert (Hpm : pow2_8 (l_maxalign st)) by (rewrite L3; apply fold_max_pow2; [exact Hg|discriminate]).
  assert (Ha : 0 < l_maxalign st) by (destruct Hpm as [->|[->|[->| ->]]]; lia).
  set (tail := (l_maxalign st - l_next st mod l_maxalign st) mod l_maxalign st).
  destruct (N.eqb_spec (l_next st mod l_maxalign st) 0) as [E|E].
  - assert (Ht : tail = 0) by (unfold tail; rewrite E, N.sub_0_r, N.mod_same by lia; reflexivity).
    rewrite Ht, N.add_0_r. exact Hok.
  - assert (Hdiv : tail mod l_prevalign st = 0) by (apply padding_divisible; assumption).
    assert (Hw' : 0 < l_prevalign st) by (destruct Hpow as [->|[->|[->| ->]]]; lia).
    pose proof (div_mul_exact tail (l_prevalign st) Hw' Hdiv) as Hcw.
    replace (l_next st + tail) with (l_next st + tail / l_prevalign st * l_prevalign st) by lia.
    apply pads_ok_close; [exact Hok|discriminate| |exact Hlast].
    right. apply Hprev. discriminate.
Qed.

Example layout_examples :
  let Pair := FStruct [FPrim 1; FPrim 4] in
  let Big := [FPrim 1; FPrim 2; FPrim 8; FOpt (FPrim 2); FStruct [Pair; FPrim 1]; FEnum; FPrim 8; FStruct [FPrim 2]] in
  map f_off (fst (fst (fst (struct_info Big)))) = [0; 2; 8; 16; 20; 32; 40; 48] /\
  snd (fst (fst (struct_info Big))) = 56 /\ forallb wf Big = true /\
  flat_js_top (FStruct Big) = flat_doc_top (FStruct Big) /\
  read_val (FStruct [FPrim 1; FOpt (FPrim 2); FPrim 4]) (write_val (FStruct [FPrim 1; FOpt (FPrim 2); FPrim 4]) (VStructV [VNum 7; VSome (VNum 513); VNum 70000]) (repeat 0 12%nat) 0) 0
    = VStructV [VNum 7; VSome (VNum 513); VNum 70000].
Proof. vm_compute. repeat split. Qed.
