(* C08 — values written by _writeToArrayBuffer are read back unchanged by _fromFFI, for every well-formed struct type,
   every nesting and every field order: fields occupy disjoint byte ranges inside the struct (a consequence of the
   repr(C) offsets), a write touches only its own range, a read depends only on its own range. *)
From Coq Require Import List NArith ZArith Bool Lia ZifyBool ZifyNat ZifyN.
Import ListNotations.
From DV Require Import Layout.Model Layout.Proofs.
Local Open Scope N_scope.
Ltac Zify.zify_post_hook ::= Z.div_mod_to_equations.

(* ---------- bytes ---------- *)
Lemma le_bytes_length w n : length (le_bytes w n) = w.
Proof. revert n. induction w as [|w IH]; intros n; cbn [le_bytes length]; [reflexivity|]. rewrite IH. reflexivity. Qed.

Lemma of_le_le_bytes w : forall n, n < 256 ^ N.of_nat w -> of_le (le_bytes w n) = n.
Proof.
  induction w as [|w IH]; intros n Hn.
  - cbn in Hn. cbn. lia.
  - cbn [le_bytes of_le]. rewrite IH.
    + pose proof (N.div_mod n 256). lia.
    + rewrite Nat2N.inj_succ, N.pow_succ_r' in Hn. apply N.div_lt_upper_bound; lia.
Qed.

(* ---------- lists as memories ---------- *)
Lemma nth_error_firstn_skipn {A} (m : list A) off n k :
  nth_error (firstn n (skipn off m)) k = if (k <? n)%nat then nth_error m (off + k)%nat else None.
Proof.
  revert off n k. induction m as [|x m IH]; intros off n k.
  - rewrite skipn_nil, firstn_nil. destruct (k <? n)%nat; destruct k, (off + 0)%nat, off; cbn; try reflexivity; destruct (off + S k)%nat; reflexivity.
  - destruct off as [|off].
    + cbn [skipn Nat.add]. destruct n as [|n]; [cbn; destruct k; reflexivity|].
      destruct k as [|k]; [reflexivity|]. cbn [firstn nth_error]. specialize (IH 0%nat n k). cbn [skipn Nat.add] in IH. rewrite IH.
      replace (S k <? S n)%nat with (k <? n)%nat by (destruct (Nat.ltb_spec k n), (Nat.ltb_spec (S k) (S n)); try reflexivity; lia). reflexivity.
    + cbn [skipn]. rewrite IH. cbn [Nat.add nth_error]. reflexivity.
Qed.

Lemma nth_error_skipn' {A} (m : list A) n k : nth_error (skipn n m) k = nth_error m (n + k)%nat.
Proof.
  revert n. induction m as [|x m IH]; intros n; [rewrite skipn_nil; destruct k, n; reflexivity|].
  destruct n as [|n]; [reflexivity|]. cbn [skipn Nat.add nth_error]. apply IH.
Qed.

Lemma nth_error_firstn' {A} (m : list A) n k : (k < n)%nat -> nth_error (firstn n m) k = nth_error m k.
Proof.
  intros H. change (firstn n m) with (firstn n (skipn 0 m)). rewrite nth_error_firstn_skipn.
  destruct (Nat.ltb_spec k n); [reflexivity|lia].
Qed.

Lemma nth_error_ext' {A} (a b : list A) : (forall k, nth_error a k = nth_error b k) -> a = b.
Proof.
  revert b. induction a as [|x a IH]; intros b H.
  - destruct b as [|y b]; [reflexivity|]. specialize (H 0%nat). discriminate H.
  - destruct b as [|y b]; [specialize (H 0%nat); discriminate H|].
    pose proof (H 0%nat) as H0. cbn in H0. inversion H0; subst. f_equal. apply IH. intros k. exact (H (S k)).
Qed.

Lemma read_at_ext m1 m2 off n :
  (forall i, (N.to_nat off <= i < N.to_nat off + n)%nat -> nth_error m1 i = nth_error m2 i) -> read_at m1 off n = read_at m2 off n.
Proof.
  intros H. unfold read_at. apply nth_error_ext'. intros k. rewrite !nth_error_firstn_skipn.
  destruct (Nat.ltb_spec k n); [apply H; lia|reflexivity].
Qed.

Lemma write_at_length m off bs : (N.to_nat off + length bs <= length m)%nat -> length (write_at m off bs) = length m.
Proof. intros H. unfold write_at. rewrite !app_length, firstn_length, skipn_length. lia. Qed.

Lemma nth_error_write_at m off bs i : (N.to_nat off + length bs <= length m)%nat ->
  nth_error (write_at m off bs) i =
  if (i <? N.to_nat off)%nat then nth_error m i
  else if (i <? N.to_nat off + length bs)%nat then nth_error bs (i - N.to_nat off) else nth_error m i.
Proof.
  intros H. unfold write_at.
  destruct (Nat.ltb_spec i (N.to_nat off)) as [Hlt|Hge].
  - rewrite nth_error_app1 by (rewrite firstn_length; lia). rewrite nth_error_firstn' by exact Hlt. reflexivity.
  - rewrite nth_error_app2 by (rewrite firstn_length; lia). rewrite firstn_length. replace (Nat.min (N.to_nat off) (length m)) with (N.to_nat off) by lia.
    destruct (Nat.ltb_spec i (N.to_nat off + length bs)) as [Hlt2|Hge2].
    + rewrite nth_error_app1 by lia. reflexivity.
    + rewrite nth_error_app2 by lia. rewrite nth_error_skipn'. f_equal. lia.
Qed.

Lemma read_write_same m off bs : (N.to_nat off + length bs <= length m)%nat -> read_at (write_at m off bs) off (length bs) = bs.
Proof.
  intros H. unfold read_at. apply nth_error_ext'. intros k. rewrite nth_error_firstn_skipn.
  destruct (Nat.ltb_spec k (length bs)) as [Hlt|Hge].
  - rewrite nth_error_write_at by exact H.
    destruct (Nat.ltb_spec (N.to_nat off + k) (N.to_nat off)); [lia|].
    destruct (Nat.ltb_spec (N.to_nat off + k) (N.to_nat off + length bs)); [|lia]. f_equal. lia.
  - symmetry. apply nth_error_None. lia.
Qed.

(* ---------- values of a type ---------- *)
Inductive typed : fty -> val -> Prop :=
| ty_prim s n : n < 256 ^ s -> typed (FPrim s) (VNum n)
| ty_enum n : n < 256 ^ 4 -> typed FEnum (VNum n)
| ty_opaque n : n < 256 ^ 4 -> typed FOpaque (VNum n)
| ty_slice p l : p < 256 ^ 4 -> l < 256 ^ 4 -> typed FSlice (VStructV [VNum p; VNum l])
| ty_struct fs vs : Forall2 typed fs vs -> typed (FStruct fs) (VStructV vs)
| ty_none p : typed (FOpt p) VNone
| ty_some p v : typed p v -> typed (FOpt p) (VSome v).

(* the anonymous loops of write_val / read_val, named *)
Fixpoint write_fields (base : N) (fs : list fty) (offs : list N) (vs : list val) (m : list N) : list N :=
  match fs, offs, vs with
  | f :: fs', o :: offs', v' :: vs' => write_fields base fs' offs' vs' (write_val f v' m (base + o))
  | _, _, _ => m
  end.
Fixpoint read_fields (base : N) (fs : list fty) (offs : list N) (m : list N) : list val :=
  match fs, offs with
  | f :: fs', o :: offs' => read_val f m (base + o) :: read_fields base fs' offs' m
  | _, _ => []
  end.

Lemma write_val_struct fs vs m base :
  write_val (FStruct fs) (VStructV vs) m base = write_fields base fs (map f_off (fst (fst (fst (struct_info fs))))) vs m.
Proof.
  cbn [write_val]. generalize (map f_off (fst (fst (fst (struct_info fs))))). intros offs. revert offs vs m.
  induction fs as [|f fs IH]; intros offs vs m; [reflexivity|].
  destruct offs as [|o offs]; [reflexivity|]. destruct vs as [|v vs]; [reflexivity|]. cbn [write_fields]. apply IH.
Qed.

Lemma read_val_struct fs m base :
  read_val (FStruct fs) m base = VStructV (read_fields base fs (map f_off (fst (fst (fst (struct_info fs))))) m).
Proof.
  cbn [read_val]. f_equal. generalize (map f_off (fst (fst (fst (struct_info fs))))). intros offs. revert offs.
  induction fs as [|f fs IH]; intros offs; [reflexivity|]. destruct offs as [|o offs]; [reflexivity|]. cbn [read_fields]. f_equal. apply IH.
Qed.

(* ---------- field ranges ---------- *)
Lemma spec_end_ge fs : Forall good fs -> forall e, e <= spec_end e fs.
Proof.
  induction 1 as [|f fs Hf _ IH]; intros e; cbn [spec_end]; [lia|].
  destruct Hf as [Hp _]. assert (0 < talign f) by (destruct Hp as [->|[->|[->| ->]]]; lia).
  pose proof (round_up_ge e (talign f) H). specialize (IH (round_up e (talign f) + tsize f)). lia.
Qed.

Lemma struct_offsets fs : forallb wf fs = true -> fs <> [] ->
  map f_off (fst (fst (fst (struct_info fs)))) = spec_offsets 0 fs /\ spec_end 0 fs <= tsize (FStruct fs).
Proof.
  intros Hw Hne. pose proof (offsets_are_reprC fs Hw Hne) as H.
  assert (Hg : Forall good fs) by (apply Forall_forall; intros x Hx; apply wf_good; eapply forallb_forall; eassumption).
  unfold tsize. destruct fs as [|f fs']; [congruence|].
  change (tsa (FStruct (f :: fs'))) with
    (let st := fold_left (fun st f0 => let '(sz, al, sc) := tsa f0 in field_step st sz al sc) (f :: fs') (mkL 0 0 1 [] Zst) in
     (l_next st + (l_maxalign st - l_next st mod l_maxalign st) mod l_maxalign st, l_maxalign st, l_sc st)).
  unfold struct_info in H. cbv zeta in *. cbn [fst snd] in *.
  destruct H as (H1 & H2 & H3). split.
  - unfold struct_info. cbn [fst snd]. exact H1.
  - rewrite H2. unfold spec_size. apply round_up_ge.
    rewrite <- H3. fold (loop (f :: fs') (mkL 0 0 1 [] Zst)).
    pose proof (loop_spec (f :: fs') (mkL 0 0 1 [] Zst) Hg) as (_ & _ & L3). cbv zeta in L3. cbn [l_maxalign] in L3.
    assert (Hp : pow2_8 (l_maxalign (loop (f :: fs') (mkL 0 0 1 [] Zst)))) by (rewrite L3; apply fold_max_pow2; [exact Hg|discriminate]).
    destruct Hp as [->|[->|[->| ->]]]; lia.
Qed.

(* ---------- a write touches only its own range and is read back; a read depends only on its own range ---------- *)
Definition outside (base sz : N) (i : nat) : Prop := (i < N.to_nat base \/ N.to_nat base + N.to_nat sz <= i)%nat.
Definition inside (base sz : N) (i : nat) : Prop := (N.to_nat base <= i < N.to_nat base + N.to_nat sz)%nat.

Definition WOK (t : fty) : Prop := forall v m base, typed t v -> (N.to_nat base + N.to_nat (tsize t) <= length m)%nat ->
  length (write_val t v m base) = length m /\
  (forall i, outside base (tsize t) i -> nth_error (write_val t v m base) i = nth_error m i) /\
  read_val t (write_val t v m base) base = v.
Definition ROK (t : fty) : Prop := forall m1 m2 base,
  (forall i, inside base (tsize t) i -> nth_error m1 i = nth_error m2 i) -> read_val t m1 base = read_val t m2 base.

Lemma scalar_rw w n m base : n < 256 ^ N.of_nat w -> (N.to_nat base + w <= length m)%nat ->
  length (write_at m base (le_bytes w n)) = length m /\
  (forall i, (i < N.to_nat base \/ N.to_nat base + w <= i)%nat -> nth_error (write_at m base (le_bytes w n)) i = nth_error m i) /\
  of_le (read_at (write_at m base (le_bytes w n)) base w) = n.
Proof.
  intros Hn Hm. pose proof (le_bytes_length w n) as Hl. split; [apply write_at_length; lia|]. split.
  - intros i Hi. rewrite nth_error_write_at by lia. rewrite Hl.
    destruct (Nat.ltb_spec i (N.to_nat base)); [reflexivity|]. destruct (Nat.ltb_spec i (N.to_nat base + w)); [lia|reflexivity].
  - rewrite <- Hl at 2. rewrite read_write_same by lia. apply of_le_le_bytes. exact Hn.
Qed.

Lemma prim_like_WOK t w : (forall v, typed t v -> exists n, v = VNum n /\ n < 256 ^ N.of_nat w) ->
  tsize t = N.of_nat w ->
  (forall n m base, write_val t (VNum n) m base = write_at m base (le_bytes w n)) ->
  (forall m base, read_val t m base = VNum (of_le (read_at m base w))) -> WOK t /\ ROK t.
Proof.
  intros Hty Hsz Hw Hr. split.
  - intros v m base Hv Hm. destruct (Hty v Hv) as [n [-> Hn]]. rewrite Hsz in *. rewrite Hw, Hr.
    destruct (scalar_rw w n m base Hn) as (A & B & C); [lia|]. split; [exact A|split].
    + intros i Hi. apply B. unfold outside in Hi. lia.
    + f_equal. exact C.
  - intros m1 m2 base H. rewrite !Hr. f_equal. f_equal. apply read_at_ext. intros i Hi. apply H. unfold inside. rewrite Hsz. lia.
Qed.

Lemma fields_ext base : forall fs, Forall ROK fs -> Forall good fs -> forall endp m1 m2,
  (forall i, (N.to_nat base + N.to_nat endp <= i < N.to_nat base + N.to_nat (spec_end endp fs))%nat -> nth_error m1 i = nth_error m2 i) ->
  read_fields base fs (spec_offsets endp fs) m1 = read_fields base fs (spec_offsets endp fs) m2.
Proof.
  induction fs as [|f fs IH]; intros HR Hg endp m1 m2 H; [reflexivity|].
  inversion HR as [|? ? HRf HRfs]; subst. inversion Hg as [|? ? Hgf Hgfs]; subst.
  cbn [spec_offsets read_fields]. cbn [spec_end] in H.
  destruct Hgf as [Hp _]. assert (Ha : 0 < talign f) by (destruct Hp as [->|[->|[->| ->]]]; lia).
  pose proof (round_up_ge endp (talign f) Ha) as Hge.
  pose proof (spec_end_ge fs Hgfs (round_up endp (talign f) + tsize f)) as Hend.
  f_equal.
  - apply HRf. intros i Hi. apply H. unfold inside in Hi. lia.
  - apply IH; try assumption. intros i Hi. apply H. lia.
Qed.

Lemma fields_rw base : forall fs, Forall (fun t => WOK t /\ ROK t) fs -> Forall good fs -> forall endp vs m,
  Forall2 typed fs vs -> (N.to_nat base + N.to_nat (spec_end endp fs) <= length m)%nat ->
  length (write_fields base fs (spec_offsets endp fs) vs m) = length m /\
  (forall i, (i < N.to_nat base + N.to_nat endp \/ N.to_nat base + N.to_nat (spec_end endp fs) <= i)%nat ->
     nth_error (write_fields base fs (spec_offsets endp fs) vs m) i = nth_error m i) /\
  read_fields base fs (spec_offsets endp fs) (write_fields base fs (spec_offsets endp fs) vs m) = vs.
Proof.
  induction fs as [|f fs IH]; intros HA Hg endp vs m Hty Hm.
  - inversion Hty; subst. cbn. auto.
  - inversion Hty as [|? v ? vs' Hv Hvs]; subst. inversion HA as [|? ? [HWf HRf] HAfs]; subst. inversion Hg as [|? ? Hgf Hgfs]; subst.
    cbn [spec_offsets write_fields read_fields]. cbn [spec_end] in Hm |- *.
    pose proof Hgf as [Hp _]. assert (Ha : 0 < talign f) by (destruct Hp as [->|[->|[->| ->]]]; lia).
    set (o := round_up endp (talign f)) in *.
    pose proof (round_up_ge endp (talign f) Ha) as Hge. fold o in Hge.
    pose proof (spec_end_ge fs Hgfs (o + tsize f)) as Hend.
    destruct (HWf v m (base + o) Hv) as (L1 & F1 & R1); [lia|].
    set (m1 := write_val f v m (base + o)) in *.
    destruct (IH HAfs Hgfs (o + tsize f) vs' m1 Hvs) as (L2 & F2 & R2); [rewrite L1; lia|].
    split; [rewrite L2; exact L1|]. split.
    + intros i Hi. rewrite F2 by lia. apply F1. unfold outside. lia.
    + f_equal; [|exact R2].
      rewrite <- R1. apply HRf. intros i Hi. unfold inside in Hi. apply F2. lia.
Qed.

Lemma Forall_ROK fs : Forall (fun t => WOK t /\ ROK t) fs -> Forall ROK fs.
Proof. intros H. eapply Forall_impl; [|exact H]. intros a [_ Hr]. exact Hr. Qed.

Theorem rw_all t : wf t = true -> WOK t /\ ROK t.
Proof.
  induction t as [s| | | |fs IH|p IH] using fty_ind'; intros Hw.
  - assert (Hs : s = N.of_nat (N.to_nat s)) by lia.
    apply (prim_like_WOK (FPrim s) (N.to_nat s)).
    + intros v Hv. inversion Hv; subst. exists n. split; [reflexivity|]. rewrite <- Hs. assumption.
    + exact Hs.
    + reflexivity.
    + reflexivity.
  - apply (prim_like_WOK FEnum 4); try reflexivity. intros v Hv. inversion Hv; subst. exists n. split; [reflexivity|assumption].
  - apply (prim_like_WOK FOpaque 4); try reflexivity. intros v Hv. inversion Hv; subst. exists n. split; [reflexivity|assumption].
  - (* slice: pointer then length *)
    split.
    + intros v m base Hv Hm. inversion Hv as [| | |p l Hp Hl| | |]; subst. change (tsize FSlice) with 8 in *. cbn [write_val read_val].
      destruct (scalar_rw 4 p m base Hp) as (A1 & B1 & C1); [lia|].
      set (m1 := write_at m base (le_bytes 4 p)) in *.
      destruct (scalar_rw 4 l m1 (base + 4) Hl) as (A2 & B2 & C2); [lia|].
      split; [lia|]. split.
      * intros i Hi. unfold outside in Hi. rewrite B2 by lia. apply B1. lia.
      * f_equal. f_equal; [|f_equal; f_equal; exact C2].
        f_equal. rewrite <- C1. f_equal. apply read_at_ext. intros i Hi. apply B2. lia.
    + intros m1 m2 base H. cbn [read_val]. change (tsize FSlice) with 8 in H. unfold inside in H.
      f_equal. f_equal; [|f_equal]; f_equal; f_equal; apply read_at_ext; intros i Hi; apply H; lia.
  - (* struct *)
    cbn [wf] in Hw.
    assert (HA : Forall (fun t => WOK t /\ ROK t) fs).
    { rewrite Forall_forall in IH |- *. intros x Hx. apply IH; [exact Hx|]. eapply forallb_forall; eassumption. }
    assert (Hg : Forall good fs) by (apply Forall_forall; intros x Hx; apply wf_good; eapply forallb_forall; eassumption).
    destruct fs as [|f fs'].
    + split.
      * intros v m base Hv Hm. inversion Hv as [| | | |? vs Hvs| |]; subst. inversion Hvs; subst. cbn. auto.
      * intros m1 m2 base _. reflexivity.
    + destruct (struct_offsets (f :: fs') Hw) as [Hoffs Hsz]; [discriminate|]. split.
      * intros v m base Hv Hm. inversion Hv as [| | | |? vs Hvs| |]; subst.
        rewrite write_val_struct, read_val_struct, Hoffs.
        destruct (fields_rw base (f :: fs') HA Hg 0 vs m Hvs) as (L & F & R); [lia|].
        split; [exact L|]. split; [|f_equal; exact R].
        intros i Hi. apply F. unfold outside in Hi. lia.
      * intros m1 m2 base H. rewrite !read_val_struct, Hoffs. f_equal.
        apply fields_ext; [apply Forall_ROK; exact HA|exact Hg|]. intros i Hi. apply H. unfold inside. lia.
  - (* option: payload, then the flag byte after it *)
    cbn [wf] in Hw. apply andb_true_iff in Hw. destruct Hw as [Hwp _]. destruct (IH Hwp) as [HWp HRp].
    pose proof (wf_good p Hwp) as [Hpa _].
    assert (Ha : 0 < talign p) by (destruct Hpa as [->|[->|[->| ->]]]; lia).
    assert (Hsz : tsize (FOpt p) = tsize p + talign p).
    { unfold tsize, talign. cbn [tsa]. destruct (tsa p) as [[sz al] sc]. reflexivity. }
    split.
    + intros v m base Hv Hm. rewrite Hsz in *. inversion Hv as [| | | | |?|? v' Hv']; subst; cbn [write_val read_val].
      * destruct (scalar_rw 1 0 m (base + tsize p)) as (A & B & C); [cbn; lia|lia|]. cbn [le_bytes] in A, B, C.
        change (0 mod 256) with 0 in *. split; [exact A|]. split; [intros i Hi; apply B; unfold outside in Hi; lia|].
        rewrite C. reflexivity.
      * destruct (HWp v' m base Hv') as (L1 & F1 & R1); [lia|].
        set (m1 := write_val p v' m base) in *.
        destruct (scalar_rw 1 1 m1 (base + tsize p)) as (A & B & C); [cbn; lia|lia|]. cbn [le_bytes] in A, B, C.
        change (1 mod 256) with 1 in *. split; [lia|]. split.
        -- intros i Hi. unfold outside in Hi. rewrite B by lia. apply F1. unfold outside. lia.
        -- rewrite C. cbn. f_equal. rewrite <- R1. apply HRp. intros i Hi. unfold inside in Hi. apply B. lia.
    + intros m1 m2 base H. rewrite Hsz in H. unfold inside in H. cbn [read_val].
      assert (Hf : read_at m1 (base + tsize p) 1 = read_at m2 (base + tsize p) 1) by (apply read_at_ext; intros i Hi; apply H; lia).
      rewrite Hf. destruct (of_le _ =? 0); [reflexivity|]. f_equal. apply HRp. intros i Hi. apply H. unfold inside in Hi. lia.
Qed.

(* THEOREM (C08, second clause): what _writeToArrayBuffer stores, _fromFFI reads back *)
Theorem read_after_write t v m base :
  wf t = true -> typed t v -> (N.to_nat base + N.to_nat (tsize t) <= length m)%nat ->
  read_val t (write_val t v m base) base = v.
Proof. intros Hw Hv Hm. destruct (rw_all t Hw) as [HW _]. exact (proj2 (proj2 (HW v m base Hv Hm))). Qed.

(* ... and a write never touches a byte outside [base, base + size): neighbouring fields and the allocator's bookkeeping are safe *)
Theorem write_in_bounds t v m base i :
  wf t = true -> typed t v -> (N.to_nat base + N.to_nat (tsize t) <= length m)%nat ->
  outside base (tsize t) i -> nth_error (write_val t v m base) i = nth_error m i.
Proof. intros Hw Hv Hm Hi. destruct (rw_all t Hw) as [HW _]. exact (proj1 (proj2 (HW v m base Hv Hm)) i Hi). Qed.

Example read_after_write_applies :
  let t := FStruct [FPrim 1; FOpt (FStruct [FPrim 2; FPrim 8]); FSlice] in
  let v := VStructV [VNum 7; VSome (VStructV [VNum 513; VNum 1099511627776]); VStructV [VNum 4096; VNum 3]] in
  wf t = true /\ typed t v /\ read_val t (write_val t v (repeat 0 (N.to_nat (tsize t))) 0) 0 = v.
Proof.
  split; [reflexivity|]. split.
  - repeat constructor; cbn; lia.
  - vm_compute. reflexivity.
Qed.
