(* C08 — the legacy argument list: what the generated JS does (every struct decides locally, told NoForce / PassThrough /
   Force by its parent) equals what docs/wasm_abi_quirks.md prescribes (one decision at the top: more than two scalars
   or a union anywhere means "padded direct", and then every typed padding is passed), for every struct type without
   zero-sized members and without the one unresolved corner (a two-scalar struct directly inside an aggregate that
   contains a union). *)
From Coq Require Import List NArith ZArith Bool Lia ZifyBool ZifyNat ZifyN.
Import ListNotations.
From DV Require Import Layout.Model Layout.Proofs.
Local Open Scope N_scope.

(* ---------- the anonymous loops, named ---------- *)
Definition infos_of (fs : list fty) : list finfo := fst (fst (fst (struct_info fs))).
Definition pads (b : bool) (i : finfo) : list slot := if b then repeat SPad (N.to_nat (f_padcount i)) else [].

Fixpoint flatd_fields (padded : bool) (fs : list fty) (infos : list finfo) : list slot :=
  match fs, infos with
  | f :: fs', i :: infos' => flat_doc padded f ++ pads padded i ++ flatd_fields padded fs' infos'
  | _, _ => []
  end.
Fixpoint flatj_fields (outer : scalars) (force own : bool) (fs : list fty) (infos : list finfo) : list slot :=
  match fs, infos with
  | f :: r, i :: infos' =>
      flat_js (if is_struct f then child_force (tsc f) outer force else false) f ++ pads own i ++ flatj_fields outer force own r infos'
  | _, _ => []
  end.
Definition own_of (s : scalars) (force : bool) : bool := match s with Sc 2 => force | _ => true end.

Lemma flat_doc_struct padded fs : flat_doc padded (FStruct fs) = flatd_fields padded fs (infos_of fs).
Proof.
  cbn [flat_doc]. unfold infos_of. generalize (fst (fst (fst (struct_info fs)))). intros infos. revert infos.
  induction fs as [|f fs IH]; intros infos; [reflexivity|]. destruct infos as [|i infos]; [reflexivity|].
  cbn [flatd_fields]. unfold pads. f_equal. f_equal. apply IH.
Qed.

Lemma flat_js_struct force fs :
  flat_js force (FStruct fs) = flatj_fields (tsc (FStruct fs)) force (own_of (tsc (FStruct fs)) force) fs (infos_of fs).
Proof.
  cbn [flat_js]. unfold infos_of, own_of. generalize (fst (fst (fst (struct_info fs)))). intros infos.
  generalize (tsc (FStruct fs)). intros outer. revert infos.
  induction fs as [|f fs IH]; intros infos; [reflexivity|]. destruct infos as [|i infos]; [reflexivity|].
  cbn [flatj_fields]. unfold pads. f_equal. f_equal. apply IH.
Qed.

(* ---------- scalar counts ---------- *)
Definition pos_sc (s : scalars) : Prop := match s with Zst => False | Sc n => 1 <= n | Mem => True end.

Lemma loop_sc fs : forall st, l_sc (loop fs st) = fold_left sc_add (map tsc fs) (l_sc st).
Proof.
  induction fs as [|f fs IH]; intros st; [reflexivity|]. rewrite loop_cons, IH. cbn [map fold_left]. reflexivity.
Qed.

Lemma tsc_struct f fs : tsc (FStruct (f :: fs)) = fold_left sc_add (map tsc (f :: fs)) Zst.
Proof.
  unfold tsc at 1. cbn [tsa snd]. fold (loop (f :: fs) (mkL 0 0 1 [] Zst)). cbn [snd]. rewrite loop_sc. reflexivity.
Qed.

Lemma sc_add_pos a b : pos_sc b -> (a = Zst \/ pos_sc a) -> pos_sc (sc_add a b).
Proof. destruct a as [|m|], b as [|n|]; cbn; intros Hb [Ha|Ha]; try discriminate; try tauto; lia. Qed.

(* with positive summands, the running sum only grows, and Mem is absorbing *)
Lemma fold_pos l : Forall pos_sc l -> forall a, (a = Zst \/ pos_sc a) -> l <> [] \/ pos_sc a -> pos_sc (fold_left sc_add l a).
Proof.
  induction 1 as [|x l Hx _ IH]; intros a Ha Hne; cbn [fold_left]; [destruct Hne; [congruence|assumption]|].
  apply IH; [right; apply sc_add_pos; assumption|right; apply sc_add_pos; assumption].
Qed.

Definition sc_le (a b : scalars) : Prop :=
  match a, b with
  | _, Mem => True
  | Zst, _ => True
  | Sc m, Sc n => m <= n
  | _, _ => False
  end.

Lemma sc_le_refl a : sc_le a a.
Proof. destruct a; cbn; auto; lia. Qed.
Lemma sc_le_trans a b c : sc_le a b -> sc_le b c -> sc_le a c.
Proof. destruct a, b, c; cbn; intros; try tauto; lia. Qed.
Lemma sc_le_add_l a b : sc_le a (sc_add a b).
Proof. destruct a, b; cbn; auto; lia. Qed.
Lemma sc_le_add_r a b : sc_le b (sc_add a b).
Proof. destruct a, b; cbn; auto; lia. Qed.

Lemma fold_ge_init l : forall a, sc_le a (fold_left sc_add l a).
Proof. induction l as [|x l IH]; intros a; cbn [fold_left]; [apply sc_le_refl|]. eapply sc_le_trans; [apply sc_le_add_l|apply IH]. Qed.

Lemma fold_ge_each l : forall a x, In x l -> sc_le x (fold_left sc_add l a).
Proof.
  induction l as [|y l IH]; intros a x Hin; [destruct Hin|]. destruct Hin as [<-|Hin]; cbn [fold_left].
  - eapply sc_le_trans; [apply sc_le_add_r|apply fold_ge_init].
  - apply IH. exact Hin.
Qed.

(* exactly one scalar, all summands positive: a single summand *)
Lemma fold_one l : Forall pos_sc l -> fold_left sc_add l Zst = Sc 1 -> exists x, l = [x] /\ x = Sc 1.
Proof.
  intros Hp H. destruct l as [|x l]; [discriminate|]. inversion Hp as [|? ? Hx Hl]; subst. cbn [fold_left] in H.
  destruct l as [|y l].
  - cbn in H. exists x. split; [reflexivity|]. destruct x; cbn in H; congruence.
  - exfalso. inversion Hl as [|? ? Hy Hl']; subst. cbn [fold_left] in H.
    pose proof (fold_ge_init l (sc_add (sc_add Zst x) y)) as Hge. rewrite H in Hge.
    destruct x as [|m|], y as [|n|]; cbn in Hx, Hy, Hge; try tauto; lia.
Qed.

(* ---------- the conditions ---------- *)
Definition is_zst (s : scalars) : bool := match s with Zst => true | _ => false end.
Definition is_mem (s : scalars) : bool := match s with Mem => true | _ => false end.
Definition is_two (s : scalars) : bool := match s with Sc 2 => true | _ => false end.
Fixpoint okf (t : fty) : bool :=
  match t with
  | FStruct fs =>
      forallb okf fs && negb (is_zst (tsc (FStruct fs))) &&
      (if is_mem (tsc (FStruct fs)) then forallb (fun f => negb (is_struct f && is_two (tsc f))) fs else true)
  | _ => true
  end.

Lemma flat_nonstruct t a b : is_struct t = false -> flat_js a t = flat_doc b t.
Proof. destruct t; cbn; intros H; try reflexivity. discriminate. Qed.

Lemma single_field_info f : good f -> infos_of [f] = [mkF 0 0 1 (tsc f)].
Proof.
  intros [Hp Hm]. assert (Ha : 0 < talign f) by (destruct Hp as [->|[->|[->| ->]]]; lia).
  unfold infos_of, struct_info, tsc, tsize, talign in *. cbn [fold_left]. destruct (tsa f) as [[sz al] sc]. cbn [fst snd] in *.
  unfold field_step. cbn [l_next l_fields l_maxalign l_prevalign l_sc].
  rewrite N.mod_0_l by lia. rewrite N.sub_0_r, N.mod_same by lia. cbn [N.eqb]. rewrite N.add_0_l, N.add_0_r.
  replace (N.max 0 al) with al by lia. rewrite Hm. cbn [N.eqb app fst]. reflexivity.
Qed.

(* ---------- child_force, case by case ---------- *)
Lemma cf_one o a : child_force (Sc 1) o a = false.
Proof. reflexivity. Qed.
Lemma cf_two_two a : child_force (Sc 2) (Sc 2) a = a.
Proof. reflexivity. Qed.
Lemma cf_two_n n a : n <> 2 -> child_force (Sc 2) (Sc n) a = (3 <=? n).
Proof. intros H. destruct n as [|[[p|p|]|[p|p|]|]]; try reflexivity. congruence. Qed.
Lemma cf_two_mem a : child_force (Sc 2) Mem a = false.
Proof. reflexivity. Qed.
Lemma cf_big k o a : k <> 1 -> k <> 2 -> child_force (Sc k) o a = false.
Proof. intros H1 H2. destruct k as [|[[p|p|]|[p|p|]|]]; try reflexivity; congruence. Qed.
Lemma cf_mem o a : child_force Mem o a = false.
Proof. reflexivity. Qed.

Lemma own_of_n n a : n <> 2 -> own_of (Sc n) a = true.
Proof. intros H. destruct n as [|[[p|p|]|[p|p|]|]]; try reflexivity. congruence. Qed.

Lemma fields_eq S a b fs : forall infos,
  (forall f, In f fs -> flat_js (if is_struct f then child_force (tsc f) S a else false) f = flat_doc b f) ->
  flatj_fields S a b fs infos = flatd_fields b fs infos.
Proof.
  induction fs as [|f fs IH]; intros infos H; [reflexivity|]. destruct infos as [|i infos]; [reflexivity|].
  cbn [flatj_fields flatd_fields]. rewrite (H f (or_introl eq_refl)). f_equal. f_equal. apply IH. intros g Hg. apply H. right. exact Hg.
Qed.

(* the statement, by scalar class of the type *)
Definition claim (t : fty) : Prop :=
  match tsc t with
  | Zst => True
  | Sc n => if n =? 1 then forall a b, flat_js a t = flat_doc b t
            else if n =? 2 then forall a, flat_js a t = flat_doc a t
            else forall a, flat_js a t = flat_doc true t
  | Mem => forall a, flat_js a t = flat_doc true t
  end.

Lemma child_eq S a b f :
  pos_sc (tsc f) -> claim f -> sc_le (tsc f) S ->
  (* b is what the documented rule passes down; it agrees with how S treats its children *)
  match S with
  | Zst => False
  | Sc n => if n =? 1 then True else if n =? 2 then a = b else b = true
  | Mem => b = true /\ (is_struct f && is_two (tsc f) = false)
  end ->
  flat_js (if is_struct f then child_force (tsc f) S a else false) f = flat_doc b f.
Proof.
  intros Hpos Hc Hle HS. destruct (is_struct f) eqn:Hst; [|apply flat_nonstruct; exact Hst].
  unfold claim in Hc. destruct (tsc f) as [|k|] eqn:Hk; [destruct Hpos| |].
  - cbn in Hpos. destruct (N.eqb_spec k 1) as [->|Hk1].
    + rewrite cf_one. apply Hc.
    + destruct (N.eqb_spec k 2) as [->|Hk2].
      * destruct S as [|n|]; [destruct HS| |].
        -- cbn in Hle. destruct (N.eqb_spec n 1) as [->|Hn1]; [lia|]. destruct (N.eqb_spec n 2) as [->|Hn2].
           ++ rewrite cf_two_two. subst b. apply Hc.
           ++ rewrite cf_two_n by exact Hn2. subst b. replace (3 <=? n) with true by (symmetry; apply N.leb_le; lia). apply Hc.
        -- destruct HS as [_ HS]. cbn in HS. discriminate HS.
      * rewrite cf_big by assumption.
        assert (Hb : b = true).
        { destruct S as [|n|]; [destruct HS| |tauto]. cbn in Hle.
          destruct (N.eqb_spec n 1); [lia|]. destruct (N.eqb_spec n 2); [lia|]. exact HS. }
        subst b. apply Hc.
  - rewrite cf_mem. assert (Hb : b = true).
    { destruct S as [|n|]; [destruct HS|cbn in Hle; destruct Hle|tauto]. }
    subst b. apply Hc.
Qed.

Theorem flat_main t : wf t = true -> okf t = true -> pos_sc (tsc t) /\ claim t.
Proof.
  induction t as [s| | | |fs IH|p IH] using fty_ind'; intros Hw Hok.
  - split; [cbn; lia|]. unfold claim. cbn. intros a b. reflexivity.
  - split; [cbn; lia|]. unfold claim. cbn. intros a b. reflexivity.
  - split; [cbn; lia|]. unfold claim. cbn. intros a b. reflexivity.
  - split; [cbn; lia|]. unfold claim. cbn. intros a. reflexivity.
  - cbn [okf] in Hok. apply andb_true_iff in Hok. destruct Hok as [Hok Hcorner]. apply andb_true_iff in Hok. destruct Hok as [Hokf Hnz].
    cbn [wf] in Hw.
    destruct fs as [|f0 fs0]; [cbn in Hnz; discriminate|]. set (fs := f0 :: fs0) in *.
    assert (HA : forall f, In f fs -> pos_sc (tsc f) /\ claim f).
    { intros f Hf. rewrite Forall_forall in IH. apply IH; [exact Hf| |]; eapply forallb_forall; eassumption. }
    assert (Hsum : tsc (FStruct fs) = fold_left sc_add (map tsc fs) Zst) by apply tsc_struct.
    assert (Hposl : Forall pos_sc (map tsc fs)).
    { apply Forall_forall. intros x Hx. apply in_map_iff in Hx. destruct Hx as [f [<- Hf]]. apply HA. exact Hf. }
    assert (Hpos : pos_sc (tsc (FStruct fs))).
    { rewrite Hsum. apply fold_pos; [exact Hposl|left; reflexivity|left; discriminate]. }
    assert (Hle : forall f, In f fs -> sc_le (tsc f) (tsc (FStruct fs))).
    { intros f Hf. rewrite Hsum. apply fold_ge_each. apply in_map. exact Hf. }
    split; [exact Hpos|].
    unfold claim. destruct (tsc (FStruct fs)) as [|n|] eqn:HS; [exact I| |].
    + destruct (N.eqb_spec n 1) as [->|Hn1].
      * (* one scalar: a single field, no padding anywhere *)
        intros a b. destruct (fold_one (map tsc fs) Hposl) as [x [Hx ->]]; [rewrite <- Hsum; reflexivity|].
        unfold fs in Hx. cbn [map] in Hx. destruct fs0 as [|? ?]; [|discriminate]. inversion Hx as [Hf0].
        unfold fs in *. rewrite flat_js_struct, flat_doc_struct, HS.
        rewrite single_field_info by (apply wf_good; cbn in Hw; apply andb_true_iff in Hw; tauto).
        cbn [flatj_fields flatd_fields]. unfold pads. cbn [f_padcount N.to_nat repeat].
        assert (Hch : flat_js (if is_struct f0 then child_force (tsc f0) (Sc 1) a else false) f0 = flat_doc b f0).
        { apply child_eq; [apply HA; left; reflexivity|apply HA; left; reflexivity|apply Hle; left; reflexivity|cbn; exact I]. }
        rewrite Hch. destruct b, (own_of (Sc 1) a); reflexivity.
      * destruct (N.eqb_spec n 2) as [->|Hn2].
        -- intros a. rewrite flat_js_struct, flat_doc_struct, HS. cbn [own_of]. apply fields_eq. intros f Hf.
           apply child_eq; [apply HA; exact Hf|apply HA; exact Hf|apply Hle; exact Hf|cbn; reflexivity].
        -- intros a. rewrite flat_js_struct, flat_doc_struct, HS. rewrite own_of_n by exact Hn2. apply fields_eq. intros f Hf.
           apply child_eq; [apply HA; exact Hf|apply HA; exact Hf|apply Hle; exact Hf|].
           destruct (N.eqb_spec n 1); [congruence|]. destruct (N.eqb_spec n 2); [congruence|]. reflexivity.
    + intros a. rewrite flat_js_struct, flat_doc_struct, HS. cbn [own_of]. apply fields_eq. intros f Hf.
      apply child_eq; [apply HA; exact Hf|apply HA; exact Hf|apply Hle; exact Hf|].
      split; [reflexivity|]. cbn [is_mem] in Hcorner. rewrite forallb_forall in Hcorner. specialize (Hcorner f Hf).
      apply negb_true_iff in Hcorner. exact Hcorner.
  - split; [cbn; unfold tsc; cbn [tsa]; destruct (tsa p) as [[? ?] ?]; exact I|].
    unfold claim, tsc. cbn [tsa]. destruct (tsa p) as [[sz al] sc] eqn:Hp. cbn [snd]. intros a. cbn [flat_js flat_doc]. reflexivity.
Qed.

(* THEOREM (C08, fourth clause): the argument list the generated JS builds is the one the wasm C ABI rule prescribes *)
Theorem flat_js_is_documented t : wf t = true -> okf t = true -> flat_js_top t = flat_doc_top t.
Proof.
  intros Hw Hok. destruct (flat_main t Hw Hok) as [Hpos Hc]. unfold flat_js_top, flat_doc_top, claim in *.
  destruct (tsc t) as [|n|]; [destruct Hpos| |apply Hc].
  destruct (N.eqb_spec n 1) as [->|Hn1]; [apply Hc|]. destruct (N.eqb_spec n 2) as [->|Hn2]; [apply Hc|].
  cbn in Hpos. replace (2 <? n) with true by (symmetry; apply N.ltb_lt; lia). apply Hc.
Qed.

Example flat_applies :
  let t := FStruct [FPrim 1; FStruct [FPrim 2; FPrim 8]; FSlice] in
  wf t = true /\ okf t = true /\ flat_js_top t = [SVal; SPad; SPad; SPad; SPad; SPad; SPad; SPad; SVal; SPad; SPad; SPad; SVal; SVal; SVal].
Proof. repeat split; vm_compute; reflexivity. Qed.

(* the excluded corner is real: a two-scalar struct with internal padding directly inside a union-carrying aggregate *)
Example corner_differs :
  let t := FStruct [FStruct [FPrim 1; FPrim 4]; FOpt (FPrim 1)] in
  wf t = true /\ okf t = false /\ flat_js_top t <> flat_doc_top t.
Proof. repeat split; try (vm_compute; reflexivity). vm_compute. discriminate. Qed.
