(* tool/src/js/layout.rs: struct_field_info / type_size_alignment_and_scalar_count (wasm32: pointers and usize are
   4 bytes), the repr(C) rule they are meant to reproduce, little-endian reads/writes at the computed offsets, and
   the legacy "padded direct" argument list of docs/wasm_abi_quirks.md.  Definitions only. *)
From Coq Require Import List NArith Bool.
Import ListNotations.
Local Open Scope N_scope.

(* field types; a primitive is characterised by its size (= its alignment): 1, 2, 4 or 8 *)
Inductive fty :=
| FPrim (size : N) | FEnum | FOpaque | FSlice
| FStruct (fields : list fty)
| FOpt (payload : fty).

Inductive scalars := Zst | Sc (n : N) | Mem.
Definition sc_add (a b : scalars) : scalars :=
  match a, b with
  | _, Mem | Mem, _ => Mem
  | x, Zst | Zst, x => x
  | Sc m, Sc n => Sc (m + n)
  end.

Record finfo := mkF { f_off : N; f_padcount : N; f_padwidth : N; f_sc : scalars }.
(* loop state of struct_field_info *)
Record lstate := mkL { l_maxalign : N; l_next : N; l_prevalign : N; l_fields : list finfo; l_sc : scalars }.

Definition set_last_padding (fs : list finfo) (count width : N) : list finfo :=
  match rev fs with
  | [] => []
  | f :: r => rev (mkF (f_off f) count width (f_sc f) :: r)
  end.

Definition field_step (st : lstate) (sz al : N) (sc : scalars) : lstate :=
  let padding := (al - (l_next st mod al)) mod al in
  let off := l_next st + padding in
  let fs := if padding =? 0 then l_fields st
            else set_last_padding (l_fields st) (padding / l_prevalign st) (l_prevalign st) in
  mkL (N.max (l_maxalign st) al) (off + sz) al (fs ++ [mkF off 0 1 sc]) (sc_add (l_sc st) sc).

(* (size, align, scalar count) of a type; struct_info of a field list *)
Fixpoint tsa (t : fty) : N * N * scalars :=
  match t with
  | FPrim s => (s, s, Sc 1)
  | FEnum | FOpaque => (4, 4, Sc 1)
  | FSlice => (8, 4, Sc 2)
  | FStruct fs =>
      match fs with
      | [] => (4, 4, Zst)                                    (* unit_size_alignment *)
      | _ =>
        let st := fold_left (fun st f => let '(sz, al, sc) := tsa f in field_step st sz al sc) fs (mkL 0 0 1 [] Zst) in
        let tail := (l_maxalign st - (l_next st mod l_maxalign st)) mod l_maxalign st in
        (l_next st + tail, l_maxalign st, l_sc st)
      end
  | FOpt p => let '(sz, al, _) := tsa p in (sz + al, al, Mem)
  end.

Definition struct_info (fs : list fty) : list finfo * N * N * scalars :=
  match fs with
  | [] => ([], 4, 4, Zst)
  | _ =>
    let st := fold_left (fun st f => let '(sz, al, sc) := tsa f in field_step st sz al sc) fs (mkL 0 0 1 [] Zst) in
    let tail := (l_maxalign st - (l_next st mod l_maxalign st)) mod l_maxalign st in
    let fsf := if l_next st mod l_maxalign st =? 0 then l_fields st
               else set_last_padding (l_fields st) (tail / l_prevalign st) (l_prevalign st) in
    (fsf, l_next st + tail, l_maxalign st, l_sc st)
  end.

(* ---- specification: the textbook repr(C) rule ---- *)
Definition round_up (x a : N) : N := ((x + a - 1) / a) * a.
Definition tsize (t : fty) : N := fst (fst (tsa t)).
Definition talign (t : fty) : N := snd (fst (tsa t)).
Fixpoint spec_offsets (endp : N) (fs : list fty) : list N :=
  match fs with
  | [] => []
  | f :: r => let o := round_up endp (talign f) in o :: spec_offsets (o + tsize f) r
  end.
Fixpoint spec_end (endp : N) (fs : list fty) : N :=
  match fs with [] => endp | f :: r => spec_end (round_up endp (talign f) + tsize f) r end.
Definition spec_align (fs : list fty) : N := fold_left (fun a f => N.max a (talign f)) fs 0.
Definition spec_size (fs : list fty) : N := round_up (spec_end 0 fs) (spec_align fs).

(* well-formed field types: primitive sizes are 1, 2, 4, 8; no zero-sized struct inside an Option (unimplemented! there) *)
Fixpoint wf (t : fty) : bool :=
  match t with
  | FPrim s => (s =? 1) || (s =? 2) || (s =? 4) || (s =? 8)
  | FStruct fs => forallb wf fs
  | FOpt p => wf p && negb (match snd (tsa p) with Zst => true | _ => false end)
  | _ => true
  end.

(* ---- values and bytes ---- *)
Inductive val := VNum (n : N) | VStructV (vs : list val) | VNone | VSome (v : val).
Fixpoint le_bytes (width : nat) (n : N) : list N :=
  match width with O => [] | S w => (n mod 256) :: le_bytes w (n / 256) end.
Fixpoint of_le (bs : list N) : N := match bs with [] => 0 | b :: r => b + 256 * of_le r end.
Definition write_at (m : list N) (off : N) (bs : list N) : list N :=
  firstn (N.to_nat off) m ++ bs ++ skipn (N.to_nat off + length bs) m.
Definition read_at (m : list N) (off : N) (n : nat) : list N := firstn n (skipn (N.to_nat off) m).

(* _writeToArrayBuffer: every field at its offset; an Option writes its payload (when present) and the flag after it *)
Fixpoint write_val (t : fty) (v : val) (m : list N) (base : N) {struct t} : list N :=
  match t, v with
  | FPrim s, VNum n => write_at m base (le_bytes (N.to_nat s) n)
  | FEnum, VNum n | FOpaque, VNum n => write_at m base (le_bytes 4 n)
  | FSlice, VStructV [VNum p; VNum l] => write_at (write_at m base (le_bytes 4 p)) (base + 4) (le_bytes 4 l)
  | FStruct fs, VStructV vs =>
      (fix go (fs : list fty) (offs : list N) (vs : list val) (m : list N) : list N :=
         match fs, offs, vs with
         | f :: fs', o :: offs', v' :: vs' => go fs' offs' vs' (write_val f v' m (base + o))
         | _, _, _ => m
         end) fs (map f_off (fst (fst (fst (struct_info fs))))) vs m
  | FOpt p, VSome v' => write_at (write_val p v' m base) (base + tsize p) [1]
  | FOpt p, VNone => write_at m (base + tsize p) [0]
  | _, _ => m
  end.
(* _fromFFI *)
Fixpoint read_val (t : fty) (m : list N) (base : N) {struct t} : val :=
  match t with
  | FPrim s => VNum (of_le (read_at m base (N.to_nat s)))
  | FEnum | FOpaque => VNum (of_le (read_at m base 4))
  | FSlice => VStructV [VNum (of_le (read_at m base 4)); VNum (of_le (read_at m (base + 4) 4))]
  | FStruct fs =>
      VStructV ((fix go (fs : list fty) (offs : list N) : list val :=
                   match fs, offs with
                   | f :: fs', o :: offs' => read_val f m (base + o) :: go fs' offs'
                   | _, _ => []
                   end) fs (map f_off (fst (fst (fst (struct_info fs))))))
  | FOpt p => if of_le (read_at m (base + tsize p) 1) =? 0 then VNone else VSome (read_val p m base)
  end.

(* ---- legacy "padded direct" argument list: value slots and padding slots ---- *)
Inductive slot := SVal | SPad.
Definition tsc (t : fty) : scalars := snd (tsa t).
Definition opt_slots (p : fty) : list slot :=
  (* a union of size sz and alignment al is passed as sz/al slots of width al; then the flag; then al-1 byte paddings *)
  let '(sz, al, _) := tsa p in repeat SVal (N.to_nat (sz / al)) ++ [SVal] ++ repeat SPad (N.to_nat (al - 1)).

(* what docs/wasm_abi_quirks.md prescribes: one decision at the top (more than two scalars, or a union anywhere:
   "padded direct"), then every transitive scalar in order, with the typed padding iff padded *)
Fixpoint flat_doc (padded : bool) (t : fty) : list slot :=
  match t with
  | FPrim _ | FEnum | FOpaque => [SVal]
  | FSlice => [SVal; SVal]
  | FOpt p => opt_slots p
  | FStruct fs =>
      (fix go (fs : list fty) (infos : list finfo) : list slot :=
         match fs, infos with
         | f :: fs', i :: infos' => flat_doc padded f ++ (if padded then repeat SPad (N.to_nat (f_padcount i)) else []) ++ go fs' infos'
         | _, _ => []
         end) fs (fst (fst (fst (struct_info fs))))
  end.
Definition flat_doc_top (t : fty) : list slot :=
  match tsc t with Sc n => flat_doc (2 <? n) t | Zst => [] | Mem => flat_doc true t end.

(* what the generated JS does (js/gen.rs generate_fields + struct.js.jinja _intoFFI): every struct decides for its own
   padding (a 2-scalar struct obeys the caller's forcePadding, any other always pads) and tells each nested struct
   NoForce / PassThrough / Force *)
Definition is_struct (t : fty) : bool := match t with FStruct _ => true | _ => false end.
Definition child_force (child outer : scalars) (force : bool) : bool :=
  match child, outer with
  | Zst, _ | Sc 1, _ => false
  | Sc 2, Sc 2 => force                        (* PassThrough *)
  | Sc 2, Sc n => 3 <=? n                      (* Force when the outer struct has 3 or more scalars *)
  | _, _ => false                              (* NoForce *)
  end.
Fixpoint flat_js (force : bool) (t : fty) : list slot :=
  match t with
  | FPrim _ | FEnum | FOpaque => [SVal]
  | FSlice => [SVal; SVal]
  | FOpt p => opt_slots p
  | FStruct fs =>
      let own := match tsc (FStruct fs) with Sc 2 => force | _ => true end in
      (fix go (fs' : list fty) (infos : list finfo) : list slot :=
         match fs', infos with
         | f :: r, i :: infos' =>
             flat_js (if is_struct f then child_force (tsc f) (tsc (FStruct fs)) force else false) f
             ++ (if own then repeat SPad (N.to_nat (f_padcount i)) else []) ++ go r infos'
         | _, _ => []
         end) fs (fst (fst (fst (struct_info fs))))
  end.
Definition flat_js_top (t : fty) : list slot := flat_js false t.

(* ---- correspondence ---- *)
Fixpoint listN_eqb (a b : list N) : bool :=
  match a, b with [], [] => true | x :: a', y :: b' => N.eqb x y && listN_eqb a' b' | _, _ => false end.
Definition slot_eqb (a b : slot) : bool := match a, b with SVal, SVal | SPad, SPad => true | _, _ => false end.
Fixpoint slots_eqb (a b : list slot) : bool :=
  match a, b with [], [] => true | x :: a', y :: b' => slot_eqb x y && slots_eqb a' b' | _, _ => false end.
Definition agree_layout (fs : list fty) (size align : N) (offs : list N) : bool :=
  let '(infos, sz, al, _) := struct_info fs in N.eqb sz size && N.eqb al align && listN_eqb (map f_off infos) offs.
Definition agree_bytes (t : fty) (v : val) (size : N) (observed : list N) : bool :=
  listN_eqb (write_val t v (repeat 0 (N.to_nat size)) 0) observed.
Definition agree_flat (t : fty) (observed : list slot) : bool := slots_eqb (flat_js_top t) observed && slots_eqb (flat_doc_top t) observed.
